"""C14 — SignalBuffer returns exactly the retained window of the logical stream.

Cases are operation histories on one buffer.  The same history goes to the Lean model
(`psidriver buffer`, in samples) and to the real `psiaudio.buffer.SignalBuffer` through its
public API (the seconds API is fed times that map to the intended samples with a margin
of >= 0.1 sample, so `round(t*fs)` is unambiguous for every fs used).  Payload of the k-th
sample ever appended in a case is the number k (channel c carries c*CH + k), so content
identifies position; the constructor fill, the fill of filled reads and NaN get their own tokens.
"""
import numpy as np

from . import common as C
from .framework import Spec

PADI = -1.0        # constructor fill_value        -> token I
PADF = -2.0        # fill value of filled reads    -> token F
CH = 1_000_000     # channel c carries c*CH + payload
FS = [1.0, 8.0, 1000.0, 44100.0, 195312.5]
POW2 = {1.0, 8.0}  # k/fs*fs is exact: the constructor may be given size = cap/fs
DELTAS = [-0.4, -0.3, 0.0, 0.2, 0.4]   # sub-sample offsets of the float stream (never a tie)

MUTATORS = ('append', 'inval', 'invalt', 'resize', 'skip')


# ---------------------------------------------------------------------------
# The property, as a reference: the logical stream and the lower bound of what is retained
# ---------------------------------------------------------------------------
class Ref:
    padtok = 'F'       # 'I' when the filled reads use the constructor's own fill value (case['samefill'])

    def __init__(self, cap):
        self.cap, self.stream, self.lo, self.next = cap, [], 0, 0

    @property
    def hi(self):
        return len(self.stream)

    def append(self, n):
        self.stream += list(range(self.next, self.next + n))
        self.next += n
        self.lo = max(self.lo, self.hi - self.cap)      # most recent min(cap, available)

    def inval(self, i):
        if i < self.hi:
            self.stream = self.stream[:i]
            self.lo = min(self.lo, i)

    def resize(self, c):
        self.cap = c
        self.lo = max(self.lo, self.hi - c)

    def mutate(self, op):
        if op[0] == 'append':
            self.append(op[1])
        elif op[0] == 'skip':               # a giant chunk, then capacity+1 position-coded samples (rebased numbering)
            self.append(self.cap + 1)
        elif op[0] in ('inval', 'invalt'):
            self.inval(op[1])
        elif op[0] == 'resize':
            self.resize(op[1])

    # expected canonical strings; None = the property makes no demand (reversed range)
    def read(self, lb, ub):
        if lb > ub:
            return None
        if lb < self.lo or ub > self.hi:
            return 'IndexError'
        return toks(self.stream[lb:ub])

    def filled(self, lb, ub):
        if lb > ub:
            return None
        return toks([self.stream[k] if self.lo <= k < self.hi else self.padtok for k in range(lb, ub)])

    def probe(self):
        lo, hi = self.lo, self.hi
        return [f'P {lo} {hi}', self.read(lo, hi), self.read(lo - 1, hi), self.read(lo, hi + 1),
                self.read(lo + 1, hi - 1), self.filled(lo - 2, hi + 1), self.filled(lo - 3, lo - 1),
                self.filled(hi + 1, hi + 3), self.filled(hi - 2, hi)]


def toks(l):
    return ','.join(str(x) for x in l) if l else '-'


# ---------------------------------------------------------------------------
# Adapter to the real code
# ---------------------------------------------------------------------------
def tok(v, ch, frac=0.0, CH=CH):
    if v != v:
        return 'N'
    if v == PADI:
        return 'I'
    if v == PADF:
        return 'F'
    p = v - ch * CH - frac
    if p == int(p) and 0 <= p < CH:
        return str(int(p))
    return f'?{v!r}'


def tokens(arr, nch, frac=0.0, CH=CH):
    a = np.asarray(arr)
    if a.ndim != (2 if nch else 1) or (nch and a.shape[0] != nch):
        return f'SHAPE{a.shape}'
    rows = list(a) if nch else [a]
    cols = [[tok(v, ch, frac, CH) for v in row.tolist()] for ch, row in enumerate(rows)]
    for ch, c in enumerate(cols[1:], 1):
        if c != cols[0]:
            return f'CHANNELS-DIFFER(0:{toks(cols[0])};{ch}:{toks(c)})'
    return toks(cols[0])


DDTYPES = {'float32': np.float32, 'int16': np.int16, 'uint16': np.uint16, 'int32': np.int32, 'int64': np.int64}


class Impl:
    """Adapter to the real SignalBuffer.  Optional case keys (every one defaults to the plain spelling):
    ctor   'kw' | 'pos' (positional constructor arguments) | 'nanfill' (fill_value left at its default)
    bdtype None | 'float32'  (constructor dtype keyword)
    fsrepr None | 'int' | 'np64' | 'np32'  (type of the fs argument, same value)
    ddtype None | key of DDTYPES  (dtype of the appended arrays, same values)
    layout None | 'strided' | 'rev' | 'fortran' | 'readonly'  (memory layout of the appended arrays)
    args   None | 'np' | 'np32' | 'int' | 'kw'  (type / spelling of scalar arguments, same values)
    scribble  the caller overwrites every array it passed to append_data right after the call
    twin   'same' | 'cap': a second buffer (same parameters / capacity + 1) built first and fed the same array
           objects in between
    All sample numbers are rebased by `self.base` (the size of a giant first chunk, op 'skip')."""

    def __init__(self, case):
        from psiaudio.buffer import SignalBuffer
        self.case = case
        self.fs = fs = case['fs']
        self.nch = case['nch']
        cap = case['cap']
        size = cap / fs if (case.get('exact') and fs in POW2) else (cap - 0.5) / fs
        # 'numrepr': the samples are non-integers (k + 0.25) and the fill values are written as Python ints
        # (the same numbers -1 / -2): the buffer is a float buffer whatever the type of the fill value
        self.frac = 0.25 if case.get('numrepr') else 0.0
        ifill = int(PADI) if case.get('numrepr') else PADI
        fsarg = fs
        r = case.get('fsrepr')
        if r == 'int' and fs == int(fs):
            fsarg = int(fs)
        elif r == 'np64':
            fsarg = np.float64(fs)
        elif r == 'np32':
            fsarg = np.float32(fs)       # every fs in FS is exactly representable
        bdtype = {'float32': np.float32}.get(case.get('bdtype'), np.double)
        self.twin = None
        if case.get('twin'):
            # another object, differing in one parameter, built first and fed the same array objects in between
            tsize = size if case['twin'] == 'same' else size + 1 / fs
            self.twin = SignalBuffer(fs=fsarg, size=tsize, fill_value=ifill, n_channels=self.nch or None,
                                     dtype=bdtype)
            self.twin.append_data(np.full((self.nch, 3) if self.nch else 3, 333.0))
        ctor = case.get('ctor', 'kw')
        if ctor == 'pos':
            self.b = SignalBuffer(fsarg, size, ifill, bdtype, self.nch or None)
        elif ctor == 'nanfill':
            kw = {'dtype': bdtype} if case.get('bdtype') else {}
            self.b = SignalBuffer(fsarg, size, n_channels=self.nch or None, **kw)
        else:
            self.b = SignalBuffer(fs=fsarg, size=size, fill_value=ifill, n_channels=self.nch or None,
                                  dtype=bdtype)
        self.next = 0
        self.base = 0
        self.CH = case.get('chmul', CH)     # channel c carries c*CH + payload
        # fill value of the filled reads: normally distinct from the constructor's, in `samefill` cases equal to it
        self.padf = PADI if case.get('samefill') else PADF
        if case.get('numrepr'):
            self.padf = int(self.padf)
        self.args = case.get('args')

    # ---- argument representations (the same values) -----------------------
    def S(self, i):
        """a sample number as the caller may hold it"""
        i = int(i) + self.base
        if self.args == 'np':
            return np.int64(i)
        if self.args == 'np32' and abs(i) < 2 ** 31:
            return np.int32(i)
        return i

    def T(self, k, d=0.0, rel=False):
        """the time of sample k (+ a sub-sample offset d); `rel`: relative to the newest sample (not rebased)"""
        k = k if rel else k + self.base
        t = (k + d) / self.fs
        if self.args == 'np':
            return np.float64(t)
        if self.args == 'np32' and d == 0.0 and self.fs in POW2 and abs(k) < 2 ** 20:
            return np.float32(t)
        if self.args == 'int' and t == int(t):
            return int(t)
        return t

    def bounds(self):
        return f'{int(self.b.get_samples_lb()) - self.base} {int(self.b.get_samples_ub()) - self.base}'

    def rd(self, f, *a, **k):
        try:
            return tokens(f(*a, **k), self.nch, self.frac, self.CH)
        except Exception as e:
            return type(e).__name__

    def chunk(self, n):
        """position-coded data for the next n samples, in the case's dtype and memory layout"""
        dt = DDTYPES.get(self.case.get('ddtype'), np.double)
        pos = np.arange(self.next, self.next + n, dtype=np.double) + self.frac
        data = np.vstack([pos + ch * self.CH for ch in range(self.nch)]) if self.nch else pos
        data = data.astype(dt)
        lay = self.case.get('layout')
        if lay == 'strided':                        # every second element of a larger array
            big = np.full(data.shape[:-1] + (2 * n + 1,), 777, dtype=dt)
            big[..., 1::2] = data
            data = big[..., 1::2]
        elif lay == 'rev':                          # negative stride
            data = np.ascontiguousarray(data[..., ::-1])[..., ::-1]
        elif lay == 'fortran' and self.nch:
            data = np.asfortranarray(data)
        elif lay == 'readonly':
            data.flags.writeable = False
        self.next += n
        return data

    def append(self, data):
        before = data.copy()
        if self.twin is not None:
            self.twin.append_data(data)
        if self.args == 'kw':
            self.b.append_data(data=data)
        else:
            self.b.append_data(data)
        if data.dtype != before.dtype or data.shape != before.shape or not np.array_equal(data, before):
            return 'ARGUMENT-MODIFIED'
        if self.twin is not None:
            self.twin.append_data(data)
            if self.twin.get_samples_ub() % 3 == 0:
                self.twin.invalidate_samples(self.twin.get_samples_ub() - 1)
            v = self.twin.get_range_samples()
            v[...] = 555                         # the caller scribbles on what the OTHER buffer returned
        if self.case.get('scribble') and data.flags.writeable:
            data[...] = 666                      # the caller re-uses its array
        return 'ok ' + self.bounds()

    def do(self, op):
        b, fs, name = self.b, self.fs, op[0]
        S, T, kw = self.S, self.T, self.args == 'kw'
        if name == 'append':
            return self.append(self.chunk(op[1]))
        if name == 'skip':
            shape = (self.nch, op[1]) if self.nch else (op[1],)
            b.append_data(np.broadcast_to(np.double(0), shape))      # zero-stride: no memory behind it
            self.base += op[1]
            return self.append(self.chunk(self.case['cap'] + 1))
        if name == 'inval':
            b.invalidate_samples(i=S(op[1])) if kw else b.invalidate_samples(S(op[1]))
            return 'ok ' + self.bounds()
        if name == 'invalt':
            b.invalidate(t=T(op[1], op[2])) if kw else b.invalidate(T(op[1], op[2]))
            return 'ok ' + self.bounds()
        if name == 'resize':
            b.resize(size=T(op[1], rel=True)) if kw else b.resize(T(op[1], rel=True))
            return 'ok ' + self.bounds()
        if name == 'bounds':
            return 'ok ' + self.bounds()
        if name == 'boundst':
            return f'ok {round(b.get_time_lb() * fs) - self.base} {round(b.get_time_ub() * fs) - self.base}'
        if name == 'read':
            r = b.get_range_samples(lb=S(op[1]), ub=S(op[2])) if kw else b.get_range_samples(S(op[1]), S(op[2]))
            return 'ok ' + tokens(r, self.nch, self.frac, self.CH)
        if name == 'readlb':                 # upper bound left at its default
            r = b.get_range_samples(lb=S(op[1])) if kw else b.get_range_samples(S(op[1]))
            return 'ok ' + tokens(r, self.nch, self.frac, self.CH)
        if name == 'readub':                 # lower bound left at its default
            r = b.get_range_samples(ub=S(op[1])) if kw else b.get_range_samples(None, S(op[1]))
            return 'ok ' + tokens(r, self.nch, self.frac, self.CH)
        if name == 'readt':
            lb, ub = T(op[1], op[3]), T(op[2], op[4])
            return 'ok ' + tokens(b.get_range(lb=lb, ub=ub) if kw else b.get_range(lb, ub), self.nch, self.frac, self.CH)
        if name == 'readtlb':
            return 'ok ' + tokens(b.get_range(lb=T(op[1])) if kw else b.get_range(T(op[1])), self.nch, self.frac, self.CH)
        if name == 'readtub':
            return 'ok ' + tokens(b.get_range(ub=T(op[1])) if kw else b.get_range(None, T(op[1])), self.nch, self.frac, self.CH)
        if name == 'window':
            return 'ok ' + tokens(b.get_range_samples(), self.nch, self.frac, self.CH)
        if name == 'windowt':
            return 'ok ' + tokens(b.get_range(), self.nch, self.frac, self.CH)
        if name == 'filled':
            dl, du = (op[3], op[4]) if len(op) > 3 else (0.0, 0.0)
            lb, ub = T(op[1], dl), T(op[2], du)
            r = (b.get_range_filled(lb=lb, ub=ub, fill_value=self.padf) if kw
                 else b.get_range_filled(lb, ub, self.padf))
            out = 'ok ' + tokens(r, self.nch, self.frac, self.CH)
            if self.case.get('scribble'):
                r[...] = 444                 # a filled read is a fresh array today; the caller may do what it likes
            return out
        if name == 'latest':
            lb, ub = T(op[1], rel=True), T(op[2], rel=True)
            return 'ok ' + tokens(b.get_latest(lb=lb, ub=ub) if kw else b.get_latest(lb, ub), self.nch, self.frac, self.CH)
        if name == 'latest1':                # ub left at its default (0 = the newest sample)
            lb = T(op[1], rel=True)
            return 'ok ' + tokens(b.get_latest(lb=lb) if kw else b.get_latest(lb), self.nch, self.frac, self.CH)
        if name == 'latestf':
            lb, ub = T(op[1], rel=True), T(op[2], rel=True)
            r = (b.get_latest(lb=lb, ub=ub, fill_value=self.padf) if kw
                 else b.get_latest(lb, ub, self.padf))
            return 'ok ' + tokens(r, self.nch, self.frac, self.CH)
        if name == 'probe':
            lb, ub = int(b.get_samples_lb()) - self.base, int(b.get_samples_ub()) - self.base
            parts = [f'P {lb} {ub}',
                     self.rd(b.get_range_samples),
                     self.rd(b.get_range_samples, S(lb - 1), S(ub)),
                     self.rd(b.get_range_samples, S(lb), S(ub + 1)),
                     self.rd(b.get_range_samples, S(lb + 1), S(ub - 1)),
                     self.rd(b.get_range_filled, T(lb - 2), T(ub + 1), self.padf),
                     self.rd(b.get_range_filled, T(lb - 3), T(lb - 1), self.padf),
                     self.rd(b.get_range_filled, T(ub + 1), T(ub + 3), self.padf),
                     self.rd(b.get_latest, T(-2, rel=True), 0, fill_value=self.padf)]
            return ' | '.join(parts)
        raise KeyError(name)


def model_line(op, samefill=False, ref=None):
    name = op[0]
    if samefill and name in ('filled', 'latestf', 'probe'):
        return ' '.join([name + 'i'] + [str(v) for v in op[1:3]])
    if name in ('append', 'inval', 'resize', 'read', 'latest', 'latestf'):
        return ' '.join([name] + [str(v) for v in op[1:]])
    if name == 'skip':
        return f'append {ref.cap + 1}'
    if name == 'invalt':
        return f'inval {op[1]}'
    if name == 'readt':
        return f'read {op[1]} {op[2]}'
    if name in ('readlb', 'readtlb'):        # the defaulted bound is the window's
        return f'read {op[1]} {ref.hi}'
    if name in ('readub', 'readtub'):
        return f'read {ref.lo} {op[1]}'
    if name == 'latest1':
        return f'latest {op[1]} 0'
    if name == 'filled':
        return f'filled {op[1]} {op[2]}'
    if name == 'boundst':
        return 'bounds'
    if name == 'windowt':
        return 'window'
    return name            # bounds, window, probe


# ---------------------------------------------------------------------------
class C14(Spec):
    PROP = 'C14'
    MODEL = 'buffer'
    PROOF_MODULES = ['PsiProofs.C14']
    DESIGN_REF = 'DESIGN.md §6 C14'
    PARALLEL = 16
    TRUST = [
        'modelled, not verified: NumPy basic-slice assignment/reads on the last axis (incl. overlapping '
        'self-assignment and negative slice bounds) and np.pad(constant); the model transcribes what they '
        'compute, the correspondence run compares on every case',
        'the seconds API (round(t*fs), int(ceil(fs*size))) is outside the Lean model: the harness feeds times '
        'whose sample number is unambiguous (>= 0.1 sample from a rounding tie) and checks the sample-level result',
        'histories whose first chunk is giant (2**31 .. 2**44 samples) reach the model rebased by that chunk: the '
        'model sees `append capacity+1`, the adapter subtracts the offset from every sample number it reports',
        'channels: the model is polymorphic in the cell type; the harness checks that every channel of a '
        '2-/3-channel buffer shows the same positions as channel 0',
    ]
    ASSUMPTIONS = ['capacity >= 1 sample, resize to >= 1 sample, append chunks >= 1 sample, invalidation sample >= 0',
                   'range queries with lb <= ub (the property is silent on reversed ranges)']
    RULE = ('operation histories on one buffer: (a) every history up to the depth bound over a state-dependent '
            'alphabet (append 1,2,cap,cap+1; invalidate at 0, lo-1, lo, lo+1, hi-1, hi; resize cap-1, cap+1, cap+2), '
            'each followed by a probe (bounds, window, reads one sample outside either bound, filled reads '
            'overlapping / wholly before / wholly after the window, get_latest); (b) seeded random histories of up to '
            '30 ops, capacities 1..12, 1-D / 2 / 3 channels, five sampling rates, seconds API with sub-sample '
            'offsets; (c) boundary sweeps: invalidate / read / filled read at every offset -2..+2 around both '
            'bounds of a random reachable state; (d) the same histories in other spellings of the same values '
            '(constructor positional / default fill / dtype float32 / n_channels=1; fs as int, float64, float32; '
            'appended arrays float32, int16/32/64, uint16, strided, reversed, Fortran-ordered, read-only; scalar '
            'arguments as NumPy scalars, Python ints, keywords; one bound of a read left at its default; a call '
            'repeated), the caller overwriting every array it passed in, a second buffer fed the same arrays; '
            '(e) sample numbers beyond 2**31 (a giant zero-stride first chunk) and one buffer of 2**16 (thorough: '
            '2**20) samples. Non-trivial = at least two state-changing ops and one read.')
    exhaustive_note = {
        'quick': 'all histories of depth <= 4 from capacity 1, 2 and of depth <= 3 from capacity 3 over the '
                 'state-dependent alphabet in `rule` (a), each ending in a probe',
        'thorough': 'all histories of depth <= 5 from capacity 1, 2, 3 over the state-dependent alphabet in '
                    '`rule` (a), each ending in a probe',
    }

    # ---- generation ---------------------------------------------------
    @staticmethod
    def variants(rng, nch, fs, p=0.5):
        """Other spellings of the same history (see Impl): each key is drawn independently with probability p."""
        v = {}
        def hit():
            return rng.random() < p
        if hit():
            v['ctor'] = rng.choice(['pos', 'nanfill'])
        if hit():
            v['bdtype'] = 'float32'
        if hit():
            v['fsrepr'] = rng.choice(['int', 'np64', 'np32'])
        if hit():
            v['layout'] = rng.choice(['strided', 'rev', 'fortran', 'readonly'])
        if hit():
            v['args'] = rng.choice(['np', 'np32', 'int', 'kw'])
        if hit():
            v['scribble'] = True
        if hit():
            v['twin'] = rng.choice(['same', 'cap'])
        if hit():
            v['ddtype'] = rng.choice(['float32', 'int32', 'int64'] + ([] if nch else ['int16', 'uint16']))
        return v

    @staticmethod
    def sane(c):
        """Drop variant combinations that would change the values instead of their representation."""
        if c.get('ddtype', 'float32') != 'float32':
            c['numrepr'] = False                   # integer arrays cannot carry k + 0.25
        if c.get('ctor') == 'nanfill':
            c['samefill'] = False                  # the fill of the filled reads stays a number
        return c

    @staticmethod
    def alphabet(ref):
        lo, hi, cap = ref.lo, ref.hi, ref.cap
        ops = [['append', n] for n in sorted({1, 2, cap, cap + 1})]
        ops += [['inval', i] for i in sorted({0, lo - 1, lo, lo + 1, hi - 1, hi}) if 0 <= i <= hi]
        ops += [['resize', c] for c in (cap - 1, cap + 1, cap + 2) if 1 <= c <= 5]
        return ops

    def exhaustive(self, cap, depth):
        count = [0]

        def rec(ops, d):
            count[0] += 1
            c = {'kind': 'exh', 'cap': cap, 'nch': (0, 0, 0, 2, 0, 1, 0, 2)[count[0] % 8], 'fs': 1.0, 'exact': True,
                 'ops': ops + [['probe']], 'samefill': count[0] % 3 == 0, 'numrepr': count[0] % 5 == 0}
            if count[0] % 2:                       # every second history in another spelling
                c.update(self.variants(C.Rng(count[0]), c['nch'], 1.0, p=0.35))
            yield self.sane(c)
            if d == 0:
                return
            ref = Ref(cap)
            for o in ops:
                ref.mutate(o)
            for o in self.alphabet(ref):
                yield from rec(ops + [o], d - 1)
        yield from rec([], depth)

    @staticmethod
    def _near(rng, ref):
        """A sample number near a structurally interesting index."""
        base = rng.choice([ref.lo, ref.hi, ref.lo, ref.hi, 0, max(0, ref.hi - ref.cap), (ref.lo + ref.hi) // 2])
        return base + rng.randint(-2, 2)

    def _read_op(self, rng, ref, floats):
        a, b = self._near(rng, ref), self._near(rng, ref)
        if a > b and rng.random() < 0.9:
            a, b = b, a
        if a > b:                    # reversed: keep it inside the window (harmless, result empty)
            a, b = min(max(a, ref.lo), ref.hi), min(max(b, ref.lo), ref.hi)
        r = rng.random()
        if r < 0.06:                 # one bound left at its default
            return [rng.choice(['readtlb', 'readtub'] if floats else ['readlb', 'readub']), a]
        if r < 0.09:
            return ['latest1', a - ref.hi]
        if r < 0.30:
            return ['readt', a, b, rng.choice(DELTAS), rng.choice(DELTAS)] if floats else ['read', a, b]
        if r < 0.55:
            return ['filled', a, b, rng.choice(DELTAS), rng.choice(DELTAS)] if floats else ['filled', a, b]
        if r < 0.65:
            return ['latest', a - ref.hi, b - ref.hi]
        if r < 0.80:
            return ['latestf', a - ref.hi, b - ref.hi]
        if r < 0.85:
            return ['windowt'] if floats else ['window']
        if r < 0.90:
            return ['boundst'] if floats else ['bounds']
        return ['probe']

    def _mut_op(self, rng, ref, floats):
        r = rng.random()
        cap = ref.cap
        if r < 0.55:
            free = cap - (ref.hi - ref.lo)          # room left before old samples are pushed out
            n = rng.choice([1, 1, 2, cap - 1, cap, cap + 1, cap + 4, rng.randint(1, cap + 4),
                            free - 1, free, free + 1])
            return ['append', max(1, n)]
        if r < 0.85:
            i = max(0, self._near(rng, ref))
            return ['invalt', i, rng.choice(DELTAS)] if floats and rng.random() < 0.5 else ['inval', i]
        w = ref.hi - ref.lo
        c = rng.choice([cap - 1, cap + 1, cap, w, w + 1, w - 1, rng.randint(1, 16), rng.randint(1, 16)])
        return ['resize', max(1, c)]

    def random_case(self, rng, max_ops, kind='rand', floats=None):
        cap = rng.randint(1, 12)
        fs = rng.choice(FS)
        if floats is None:
            floats = rng.random() < 0.4
        ref = Ref(cap)
        ops = []
        for _ in range(rng.randint(2, max_ops)):
            if rng.random() < 0.55:
                op = self._mut_op(rng, ref, floats)
                ref.mutate(op)
            else:
                op = self._read_op(rng, ref, floats)
            ops.append(op)
            if rng.random() < 0.08:                 # the same call again
                ops.append(list(op))
                if op[0] in MUTATORS:
                    ref.mutate(op)
        ops.append(['probe'])
        nch = rng.choice([0, 0, 2, 3, 1])
        c = {'kind': 'float' if floats and kind == 'rand' else kind, 'cap': cap,
             'nch': nch, 'fs': fs, 'exact': rng.random() < 0.5, 'ops': ops,
             'samefill': rng.random() < 0.3, 'numrepr': rng.random() < 0.3}
        if rng.random() < 0.6:
            c.update(self.variants(rng, nch, fs))
        return self.sane(c)

    def huge_case(self, rng):
        """Sample numbers far beyond 2**31: a giant first chunk (a zero-stride array, no memory behind it), then an
        ordinary history; the adapter rebases all sample numbers by the size of the giant chunk."""
        c = self.random_case(rng, 12, kind='huge')
        n = rng.choice([2 ** 31 - 1, 2 ** 31, 2 ** 32 + 1, 2 ** 40, rng.randint(2 ** 31, 2 ** 44)])
        ops = [['skip', n]]
        ref = Ref(c['cap'])
        ref.mutate(ops[0])
        floats = c['fs'] >= 1000.0 or rng.random() < 0.5
        for _ in range(rng.randint(2, 12)):
            if rng.random() < 0.5:
                op = self._mut_op(rng, ref, floats)
                ref.mutate(op)
            else:
                op = self._read_op(rng, ref, floats)
            ops.append(op)
        c['ops'] = ops + [['probe']]
        if c.get('args') == 'np32' or c.get('fsrepr') == 'np32':
            c.pop('args', None), c.pop('fsrepr', None)        # 32-bit scalars cannot hold these numbers
        return c

    def scale_case(self, rng, tier):
        """One buffer far larger than the others (2**16 / 2**20 samples), fed chunks from 1 sample to beyond
        its capacity; reads are short ranges at the bounds (plus one whole window in the quick tier)."""
        cap = 2 ** 16 if tier == 'quick' else 2 ** 20
        ops = [['append', cap - 1], ['read', 0, 3], ['append', 1], ['read', cap - 3, cap], ['append', 1],
               ['read', 1, 4], ['read', 0, 3], ['filled', -1, 3], ['append', rng.randint(2, 9999)], ['bounds']]
        ref = Ref(cap)
        for o in ops:
            ref.mutate(o)
        for _ in range(6):
            r = rng.random()
            if r < 0.4:
                op = ['append', rng.choice([1, cap // 2 + rng.randint(0, 9), cap, cap + 1, cap + rng.randint(2, 999)])]
            elif r < 0.7:
                op = ['inval', rng.choice([ref.lo, ref.lo + 1, (ref.lo + ref.hi) // 2, ref.hi - 1, max(0, ref.lo - 1)])]
            else:
                op = ['resize', rng.choice([cap // 2, cap - 1, cap + 1, 2 * cap, 3])]
            ref.mutate(op)
            lo, hi = ref.lo, ref.hi
            ops += [op, ['read', lo, min(hi, lo + 3)], ['read', max(lo, hi - 3), hi], ['read', lo - 1, hi],
                    ['read', lo, hi + 1], ['filled', lo - 2, min(hi, lo + 2)], ['filled', max(lo, hi - 2), hi + 2],
                    ['latestf', -3, 0], ['bounds']]
        if tier == 'quick':
            ops.append(['window'])
        c = {'kind': 'scale', 'cap': cap, 'nch': rng.choice([0, 2]), 'fs': rng.choice([1.0, 8.0, 195312.5]),
             'exact': True, 'ops': ops, 'samefill': False, 'numrepr': False, 'chmul': 2 ** 26}
        c.update(self.variants(rng, c['nch'], c['fs'], p=0.3))
        if c.get('args') == 'np32' or c.get('fsrepr') == 'np32' or c.get('ddtype') in ('int16', 'uint16'):
            c.pop('args', None), c.pop('fsrepr', None), c.pop('ddtype', None)
        if c.get('bdtype') == 'float32' or c.get('ddtype') == 'float32':
            c['nch'] = 0               # float32 holds integers up to 2**24 only
        return self.sane(c)

    def boundary_cases(self, rng):
        """From one random reachable state: sweeps at every offset -2..+2 around both bounds."""
        base = self.random_case(rng, 8, kind='bnd', floats=False)
        pre = [o for o in base['ops'] if o[0] in MUTATORS]
        ref = Ref(base['cap'])
        for o in pre:
            ref.mutate(o)
        lo, hi = ref.lo, ref.hi
        pts = sorted({p + d for p in (lo, hi) for d in range(-2, 3)})
        reads = []
        for a in pts:
            for b in pts:
                if a <= b:
                    reads.append(['read', a, b])
                    reads.append(['filled', a, b])
                    reads.append(['latestf', a - hi, b - hi])
        c = dict(base)
        c['ops'] = pre + reads
        yield c
        for i in pts:
            if i >= 0:
                c = dict(base)
                c['ops'] = pre + [['inval', i], ['probe'], ['append', 1], ['probe'],
                                  ['append', ref.cap + 1], ['probe']]
                yield c
        for cc in sorted({max(1, (hi - lo) + d) for d in range(-2, 3)} | {max(1, ref.cap + d) for d in range(-2, 3)}):
            c = dict(base)
            c['ops'] = pre + [['resize', cc], ['probe'], ['append', 1], ['probe'], ['inval', max(0, lo - 1)], ['probe']]
            yield c

    def malformed(self, rng):
        """Odd but harmless requests: reversed ranges inside the window, negative samples, far-away
        invalidation, resize to the current size."""
        c = self.random_case(rng, 6, kind='malformed', floats=False)
        ref = Ref(c['cap'])
        for o in c['ops']:
            ref.mutate(o)
        lo, hi = ref.lo, ref.hi
        c['ops'] = c['ops'] + [['read', hi, lo], ['read', -3, hi], ['read', lo, hi + 1000], ['filled', hi, lo],
                               ['filled', -5, -1], ['inval', hi + 1000], ['resize', ref.cap], ['latest', 0, 0],
                               ['latestf', 1, 4], ['probe']]
        return c

    def cases(self, rng, tier):
        if tier == 'quick':
            scope, nrand, nbnd, maxops = [(1, 4), (2, 4), (3, 3)], 2500, 60, 30
        else:
            scope, nrand, nbnd, maxops = [(1, 5), (2, 5), (3, 5)], 150000, 4000, 30
        for cap, depth in scope:
            yield from self.exhaustive(cap, depth)
        for _ in range(nrand):
            yield self.random_case(rng, maxops)
        for _ in range(nbnd):
            yield from self.boundary_cases(rng)
        for _ in range(nrand // 20):
            yield self.malformed(rng)
        for _ in range(nrand // 50):
            yield self.huge_case(rng)
        yield self.scale_case(rng, tier)

    # ---- the two sides --------------------------------------------------
    def model_lines(self, c):
        ref = Ref(c['cap'])
        out = [f"new {c['cap']}"]
        for o in c['ops']:
            out.append(model_line(o, c.get('samefill', False), ref))
            ref.mutate(o)
        return out

    def impl_lines(self, c):
        im = Impl(c)
        out = ['ok ' + im.bounds()]
        for op in c['ops']:
            try:
                out.append(im.do(op))
            except (IndexError, ValueError) as e:
                out.append(f'err {type(e).__name__}')
        return out

    # ---- the property -----------------------------------------------------
    def oracle(self, c, out):
        ops = c['ops']
        if len(out) != len(ops) + 1:
            return f'the run did not complete: {out[-1][:200]}'
        if out[0] != 'ok 0 0':
            return f'a new buffer reports bounds {out[0]!r}, required 0 0'
        ref = Ref(c['cap'])
        if c.get('samefill'):
            ref.padtok = 'I'
        for k, (op, got) in enumerate(zip(ops, out[1:])):
            name = op[0]
            where = f'after {ops[:k]} (capacity {c["cap"]}, channels {c["nch"] or 1}), {op}'
            if name in MUTATORS:
                if name == 'append' and op[1] < 1:
                    continue
                ref.mutate(op)
                want = f'ok {ref.lo} {ref.hi}'
                if got == 'ARGUMENT-MODIFIED':
                    return f'{where}: append_data modified the array the caller passed in'
                if got != want:
                    return (f'{where}: bounds are {got!r}; the logical stream has {ref.hi} samples and the '
                            f'most recent min(capacity, available) start at {ref.lo}')
                continue
            if name in ('bounds', 'boundst'):
                want = f'ok {ref.lo} {ref.hi}'
            elif name in ('window', 'windowt'):
                want = 'ok ' + ref.read(ref.lo, ref.hi)
            elif name == 'probe':
                parts = got.split(' | ')
                exp = ref.probe()
                if len(parts) != len(exp):
                    return f'{where}: {got!r}'
                labels = ['bounds', 'get_range_samples()', 'read(lb-1,ub)', 'read(lb,ub+1)', 'read(lb+1,ub-1)',
                          'filled(lb-2,ub+1)', 'filled(lb-3,lb-1)', 'filled(ub+1,ub+3)', 'get_latest(-2,0,fill)']
                for lab, g, w in zip(labels, parts, exp):
                    if w is not None and g != w:
                        return f'{where}: {lab} gave {g!r}, the logical stream requires {w!r}'
                continue
            else:
                if name in ('readlb', 'readtlb'):
                    a, b = op[1], ref.hi
                elif name in ('readub', 'readtub'):
                    a, b = ref.lo, op[1]
                elif name == 'latest1':
                    a, b = op[1], 0
                else:
                    a, b = op[1], op[2]
                if name in ('latest', 'latestf', 'latest1'):
                    a, b = a + ref.hi, b + ref.hi
                w = ref.filled(a, b) if name in ('filled', 'latestf') else ref.read(a, b)
                if w is None:
                    continue
                want = 'err IndexError' if w == 'IndexError' else 'ok ' + w
            if got != want:
                return f'{where}: returned {got!r}, the logical stream (lo {ref.lo}, hi {ref.hi}) requires {want!r}'
        return None

    def nontrivial(self, c, out):
        ops = c['ops']
        return sum(o[0] in MUTATORS for o in ops) >= 2 and any(o[0] not in MUTATORS for o in ops)

    # ---- search / minimisation ---------------------------------------------
    def neighbours(self, c, rng):
        ops = c['ops']
        for k, o in enumerate(ops):
            for j in range(1, len(o)):
                if isinstance(o[j], int):
                    for d in (-1, 1):
                        if o[j] + d >= (1 if o[0] in ('append', 'resize') else -10 ** 9):
                            if o[0] in ('inval', 'invalt') and o[j] + d < 0:
                                continue
                            n = dict(c)
                            n['ops'] = ops[:k] + [o[:j] + [o[j] + d] + o[j + 1:]] + ops[k + 1:] + [['probe']]
                            yield n
        for k in range(len(ops)):
            n = dict(c)
            n['ops'] = ops[:k + 1] + [['probe']] + ops[k + 1:]
            yield n

    def shrink_candidates(self, c):
        ops = c['ops']
        for k in range(len(ops)):
            n = dict(c)
            n['ops'] = ops[:k] + ops[k + 1:]
            yield n
        for key in ('ctor', 'bdtype', 'fsrepr', 'layout', 'args', 'scribble', 'twin', 'ddtype', 'numrepr', 'samefill'):
            if c.get(key):
                n = dict(c)
                del n[key]
                yield n
        if c['nch']:
            yield dict(c, nch=0)
        if c['fs'] != 1.0:
            yield dict(c, fs=1.0)
        if c['cap'] > 1:
            yield dict(c, cap=c['cap'] - 1)
        for k, o in enumerate(ops):
            for j in range(1, len(o)):
                if isinstance(o[j], int) and o[j] > (1 if o[0] in ('append', 'resize') else 0):
                    n = dict(c)
                    n['ops'] = ops[:k] + [o[:j] + [o[j] - 1] + o[j + 1:]] + ops[k + 1:]
                    yield n
            if o[0] in ('readt', 'filled', 'invalt') and len(o) > 3 - (o[0] == 'invalt'):
                n = dict(c)
                base = {'readt': ['read'], 'filled': ['filled'], 'invalt': ['inval']}[o[0]]
                n['ops'] = ops[:k] + [base + o[1:(2 if o[0] == 'invalt' else 3)]] + ops[k + 1:]
                yield n

    def describe(self, c):
        var = {k: c[k] for k in ('ctor', 'bdtype', 'fsrepr', 'ddtype', 'layout', 'args', 'scribble', 'twin',
                                 'numrepr', 'samefill') if c.get(k)}
        return (f"capacity {c['cap']} samples, channels {c['nch'] or 1}, fs {c['fs']}{' ' + str(var) if var else ''}: "
                + '; '.join(' '.join(str(v) for v in o) for o in c['ops'][:40]))


SPEC = C14()
