#!/bin/sh
# r2test.sh <ID> <k> [extra check ids]: confirm + test one round-2 seed; one summary line
id=$1; k=$2; shift 2
c=$(/verif/harness/confirm_seed.sh /verif/seeded_incoming/r2_$id $k 2>&1 | grep -v imports | awk -F: '{print $2}' | cut -c1-22 | tr '\n' '|')
t=$(/verif/harness/seedtest_wt.sh /verif/seeded_incoming/r2_$id/patch_$k.diff $id "$@" 2>&1 | cut -c1-60 | tr '\n' ';')
echo "r2 $id-$k confirm[$c] test[$t]"
