#!/bin/sh
# mkseed.sh <ID>: scratch repo worktree for an independent seeded-change agent
set -e
id="$1"
mkdir -p /tmp/seed/$id/out
git -C /repo worktree add -q --detach /tmp/seed/$id/repo HEAD
/venv/bin/python - "$id" <<'PY'
import json,sys
pid=sys.argv[1]
for l in open('/verif/properties.jsonl'):
    p=json.loads(l)
    if p['id']==pid:
        open(f'/tmp/seed/{pid}/property.txt','w').write(
          f"Property {pid}: {p['title']}\n\nStatement: {p['statement']}\n\nQuantified over: {p['quantifier']['text']}\n\nCode it is anchored in: {', '.join(p['anchors']['files'])}\nMechanisms: " + '; '.join(m['name']+' ('+m['where']+')' for m in p['anchors']['mechanism']) + "\n")
PY
echo /tmp/seed/$id
