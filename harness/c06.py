"""C06 — end to end, every presented trial is recovered sample-exactly from the stream.

Two streams of cases.

float : the two seconds<->samples expressions, evaluated verbatim as queue.py / pipeline.py write them
        (real Python floats, real round()), against the integer the Lean side predicts (K0 + k - P).
pipe  : real queue (every policy) -> real extract_epochs.  Generation and acquisition are chunked
        independently, pause/resume at chosen positions, the played stream is truncated at the pause
        position (what has been generated but not yet played is discarded, as a playback device would).
        Correspondence: the Lean extractor model is driven by the real queue's added/removed logs and
        must deliver the same epochs as the real extractor.  Oracle: every trial not cancelled (its end
        is not after a later pause position, in exact arithmetic) yields exactly one epoch, bit-identical
        to the source waveform followed by zeros; no cancelled trial yields an epoch.
"""
import copy
import json
from collections import deque
from fractions import Fraction

import numpy as np

from .framework import Spec

FS_LIST = [25000.0, 44100.0, 48828.125, 97656.25, 195312.5]
POLICIES = ['fifo', 'interleaved', 'interleaved_nokeep', 'random', 'blocked_random', 'blocked_fifo', 'grouped']


# ---------------------------------------------------------------------------
# float level
# ---------------------------------------------------------------------------
def float_roundtrip(fs, K0, k, pfrac, how=None):
    if how:
        # the same numbers as NumPy scalars / Python int (fs), NumPy integer (sample counter)
        fs = as_repr(fs, 'int' if how == 'int' else 'np64')
        if how == 'np':
            K0, k = np.int64(K0), np.int64(k)
    T = K0 / fs                       # queue.set_t0(K0 / fs)
    p = pfrac / fs                    # prestim_time
    t0 = T + (k / fs)                 # queue.py next_trial: self._t0 + (self._samples/self._fs)
    return round((t0 - p) * fs)       # pipeline.py extract_epochs: round((info['t0'] - prestim_time) * fs)


# ---------------------------------------------------------------------------
# pipeline simulation (real queue; optionally the real extractor)
# ---------------------------------------------------------------------------
def as_repr(x, how):
    """The same number in another representation."""
    if how in (None, 'float'):
        return x
    if how == 'np64':
        return np.float64(x)
    if how == 'int':
        return int(x) if float(x).is_integer() else x
    raise ValueError(how)


REGISTRY_NAME = {'fifo': 'first-in, first-out', 'interleaved': 'interleaved first-in, first-out',
                 'blocked_fifo': 'blocked first-in, first-out', 'random': 'random'}


def make_queue(case):
    from psiaudio import queue as Q
    hard = case.get('hard') or {}
    fs = as_repr(case['fs'], hard.get('fs_as'))
    pol = case['policy']
    # construction routes: fs given to the constructor, or set afterwards with set_fs; class looked up in the
    # module's name -> class table
    late_fs = bool(hard.get('set_fs'))
    kw = {} if late_fs else {'fs': fs}
    if hard.get('registry') and pol in REGISTRY_NAME:
        q = Q.queues[REGISTRY_NAME[pol]](**kw)
    elif pol == 'fifo':
        q = Q.FIFOSignalQueue(**kw)
    elif pol == 'interleaved':
        q = Q.InterleavedFIFOSignalQueue(**kw)
    elif pol == 'interleaved_nokeep':
        q = Q.InterleavedFIFOSignalQueue(False, **kw) if hard.get('pos') else \
            Q.InterleavedFIFOSignalQueue(keep_complete_waveforms=False, **kw)
    elif pol == 'random':
        q = Q.RandomSignalQueue(**kw)
    elif pol == 'blocked_random':
        q = Q.BlockedRandomSignalQueue(case['seed'], **kw) if hard.get('pos') else \
            Q.BlockedRandomSignalQueue(seed=case['seed'], **kw)
    elif pol == 'blocked_fifo':
        q = Q.BlockedFIFOSignalQueue(**kw)
    elif pol == 'grouped':
        q = Q.GroupedFIFOSignalQueue(case['group'], **kw) if hard.get('pos') else \
            Q.GroupedFIFOSignalQueue(group_size=case['group'], **kw)
    else:
        raise ValueError(pol)
    if late_fs:
        q.set_fs(fs)
    return q


def make_source(case, i, st):
    fs = case['fs']
    if st['kind'] == 'array':
        n = st['n']
        w = (1000.0 * (i + 1) + np.arange(1, n + 1, dtype=float))
        # the same values in another dtype (all exactly representable)
        return w.astype({'f4': np.float32, 'i4': np.int32, 'i8': np.int64}[st['dtype']]) if st.get('dtype') else w
    from psiaudio.calibration import FlatCalibration
    from psiaudio.stim import Cos2EnvelopeFactory, ToneFactory
    tone = ToneFactory(fs=fs, level=0, frequency=st['freq'], calibration=FlatCalibration.as_attenuation())
    return Cos2EnvelopeFactory(fs=fs, start_time=0, rise_time=st['rise'], duration=st['dur'], input_factory=tone)


def source_waveform(src):
    if isinstance(src, np.ndarray):
        return np.array(src, dtype=float)
    s = copy.deepcopy(src)
    s.reset()
    return np.asarray(s.next(s.n_samples()), dtype=float)


def epoch_params(case):
    """(epoch_size argument, prestim, poststim) of extract_epochs."""
    return case['epoch_size'], case['pre'], case['post']


def conv(case, info):
    """pipeline.py 812-817, verbatim."""
    fs = case['fs']
    epoch_size, prestim_time, poststim_time = epoch_params(case)
    size = epoch_size if epoch_size else info['duration']
    total_epoch_size = size + poststim_time + prestim_time
    epoch_samples = round(total_epoch_size * fs)
    t0 = round((info['t0'] - prestim_time) * fs)
    return t0, epoch_samples


def simulate(case, with_extractor):
    """Run the real queue through the case's ops.  Returns a dict with the played stream, the trial log,
    the per-acquisition-call visibility of notifications and (optionally) the real extractor's output."""
    from psiaudio import pipeline as P
    import itertools
    fs, K0 = case['fs'], case['K0']
    hard = case.get('hard') or {}
    state = np.random.get_state()
    if case.get('decoy') and with_extractor:
        # other objects of the same classes, differing in their parameters, built and used first: nothing of them
        # may show in what follows
        try:
            simulate(case['decoy'], True)
        except Exception:
            pass
    np.random.seed(case['seed'] % (2 ** 32))
    try:
        q = make_queue(case)
        q.set_t0(K0 / fs)
        sources, keys = [], []
        waves = [None] * (len(case['stims']) + len(case.get('late') or []))

        def delays_of(st):
            d = st['delay']
            if st.get('delay_as') == 'cycle':
                return itertools.cycle([d, st.get('delay2', d)])    # any iterable is accepted; delay2 >= delay
            if st.get('delay_as') == 'int' and float(d).is_integer():
                return int(d)
            if st.get('delay_as') == 'np64':
                return np.float64(d)
            return d

        def caller_touches(src):
            # the caller goes on using what it passed in: the queue holds its own copy
            if hard.get('clobber_src'):
                if isinstance(src, np.ndarray):
                    src[...] = -555
                else:
                    src.reset()
                    src.next(3)

        def add(i, st, trials):
            src = make_source(case, i, st)
            waves[i] = source_waveform(src)
            dur = None
            if hard.get('explicit_duration'):
                # the default value, spelled out
                dur = src.shape[-1] / as_repr(case['fs'], hard.get('fs_as')) if isinstance(src, np.ndarray) else src.get_duration()
            md = {'stim': i}
            if hard.get('pos'):
                k = q.append(src, trials, delays_of(st), dur, md)
            elif dur is not None:
                k = q.append(src, trials, delays_of(st), duration=dur, metadata=md)
            else:
                k = q.append(src, trials, delays_of(st), metadata=md)
            sources.append(src)
            keys.append(k)
            caller_touches(src)
            return k

        if hard.get('extend') and not hard.get('explicit_duration'):
            srcs = [make_source(case, i, st) for i, st in enumerate(case['stims'])]
            for i, x in enumerate(srcs):
                waves[i] = source_waveform(x)
            sources.extend(srcs)
            keys.extend(q.extend(srcs, [st['trials'] for st in case['stims']], [delays_of(st) for st in case['stims']],
                                 metadata=[{'stim': i} for i in range(len(srcs))]))
            for x in srcs:
                caller_touches(x)
        else:
            for i, st in enumerate(case['stims']):
                add(i, st, st['trials'])
        kidx = {k: i for i, k in enumerate(keys)}

        added_q, removed_q = deque(), deque()
        added_q2, removed_q2 = deque(), deque()
        trials = []                      # every 'added': dict(K, stim, t0, key, dur)
        notes = {'added': [], 'removed': []}
        removed_pos = {}                 # (t0, stim) -> positions in the notification order
        counter = [0]

        def on_added(info):
            counter[0] += 1
            tr = {'K': K0 + q._samples, 'stim': kidx[info['key']], 't0': info['t0'], 'dur': info['duration'],
                  'idx': len(trials), 'pos': counter[0]}
            trials.append(tr)
            # every consumer connected to the queue receives the SAME dict object (queue._notify); the extractor
            # writes its own keys (epoch_size, prestim_time, ...) into it
            added_q.append(info)
            added_q2.append(info)
            notes['added'].append((info['t0'], kidx[info['key']]))

        def on_removed(info):
            counter[0] += 1
            removed_q.append(info)
            removed_q2.append(info)
            notes['removed'].append((info['t0'], kidx[info['key']]))
            removed_pos.setdefault((info['t0'], kidx[info['key']]), []).append(counter[0])

        q.connect(on_added, 'added')
        if hard.get('pos'):
            q.connect(on_removed, 'removed')
        else:
            q.connect(callback=on_removed, event='removed')

        played = [np.zeros(K0)]          # acquisition started K0 samples before the queue
        n_played = K0                    # samples generated (= queue clock + K0)
        acq_pos = 0
        pauses = []                      # (position m, number of trials added before the pause)
        calls = []                       # per acquisition call: start, n, reqs(list of info), rems(list of info)
        got, done = [], []
        ex = None

        def consumer(store):
            def target(x):
                if hard.get('clobber_epochs'):
                    # the consumer owns the batch: keep a copy, overwrite the original in place
                    snap = P.PipelineData(np.array(np.asarray(x)), fs=x.fs, s0=x.s0, channel=x.channel,
                                          metadata=copy.deepcopy(x.metadata))
                    store.append(snap)
                    if np.asarray(x).flags.writeable:
                        np.asarray(x)[...] = 4242
                    for md in x.metadata:
                        md.clear()
                else:
                    store.append(x)
            return target

        if with_extractor:
            epoch_size, pre, post = epoch_params(case)
            xfs = as_repr(fs, hard.get('fs_as'))
            if hard.get('pos'):
                ex = P.extract_epochs(xfs, added_q, epoch_size, consumer(got), case['buffer'], lambda: done.append(1),
                                      removed_q, pre, post)
            else:
                ex = P.extract_epochs(xfs, added_q, epoch_size, consumer(got), buffer_size=case['buffer'],
                                      empty_queue_cb=lambda: done.append(1), removed_queue=removed_q,
                                      prestim_time=pre, poststim_time=post)
        # an optional second extractor on the same queue, with its own (different) epoch size: checked by the oracle
        ex2, got2, out2 = None, [], []
        if with_extractor and case.get('second'):
            ex2 = P.extract_epochs(fs, added_q2, case['second'], consumer(got2), buffer_size=case['buffer'],
                                   removed_queue=removed_q2, prestim_time=pre, poststim_time=0)
        out_lines = []
        seen_added, seen_removed = 0, 0

        def stream():
            if len(played) > 1:
                played[:] = [np.concatenate(played)]
            return played[0]

        def acquire(n):
            nonlocal acq_pos, seen_added, seen_removed
            s = stream()
            n = min(n, len(s) - acq_pos)
            chunk = s[acq_pos:acq_pos + n]
            reqs = list(added_q)
            rems = list(removed_q)
            calls.append({'start': acq_pos, 'n': n, 'reqs': [(i['t0'], kidx[i['key']], i['duration']) for i in reqs],
                          'rems': [(i['t0'], kidx[i['key']]) for i in rems]})
            if ex is not None:
                n_got = len(got)
                n_done = len(done)
                pd = P.PipelineData(chunk, fs, s0=acq_pos, metadata={})
                try:
                    ex.send(pd)
                    out_lines.append((got[n_got:], len(done) - n_done, None))
                except StopIteration:
                    out_lines.append(([], 0, 'dead'))
                except Exception as e:
                    out_lines.append(([], 0, f'err {type(e).__name__}'))
            else:
                added_q.clear()
                removed_q.clear()
            if ex2 is not None:
                n2 = len(got2)
                try:
                    ex2.send(P.PipelineData(chunk, fs, s0=acq_pos, metadata={}))
                    out2.append((got2[n2:], 0, None))
                except Exception as e:
                    out2.append(([], 0, f'err {type(e).__name__}'))
            else:
                added_q2.clear()
                removed_q2.clear()
            acq_pos += n

        def generate(n):
            nonlocal n_played
            dec = hard.get('decrement')
            if dec == 'pos':
                w = q.pop_buffer(n, True)
            elif dec == 'kw':
                w = q.pop_buffer(samples=n, decrement=True)
            elif dec == 'off':
                w = q.pop_buffer(n, decrement=False)       # trial counters are left to someone else: the queue never runs out
            else:
                w = q.pop_buffer(n)
            played.append(np.array(w, dtype=float))
            n_played += len(w)
            if hard.get('clobber_out') and isinstance(w, np.ndarray) and w.flags.writeable:
                w[...] = 777                                # the device re-uses / scales its output buffer in place

        def structural(sel, delta):
            """A structurally interesting position (trial start, epoch start, waveform end, epoch end of a generated
            trial) inside (acq_pos, n_played], shifted by delta."""
            Pp = round(case['pre'] * fs)
            pts = set()
            for t in trials:
                wl = len(waves[t['stim']])
                _, L = conv(case, {'t0': t['t0'], 'duration': t['dur']})
                pts.update([t['K'], t['K'] - Pp, t['K'] + wl, t['K'] - Pp + L])
            pts = sorted(p_ for p_ in pts if acq_pos < p_ + delta <= n_played)
            if not pts:
                return None
            return pts[sel * (len(pts) - 1) // 1000] + delta

        clean_pause = False              # paused by pause(t): no source is active, resume(t) may move the clock forward
        for op in case['ops']:
            if op[0] == 'gen':
                generate(op[1])
            elif op[0] == 'acq':
                acquire(op[1])
            elif op[0] == 'acq_to':
                tgt = structural(op[1], op[2])
                if tgt is not None:
                    acquire(tgt - acq_pos)
            elif op[0] == 'append':
                j = op[1]
                st = case['late'][j]
                k = add(len(case['stims']) + j, st, st['trials'])
                kidx[k] = len(case['stims']) + j
            elif op[0] == 'pause':
                hi = n_played
                if len(op) > 4 and op[4]:
                    # two-step pause: first `pause()` (stop generating now), a little more output is fetched
                    # (silence), then `pause(t)` names the position reached by the device, not after the first call
                    q.pause()
                    generate(op[4])
                # pause position: op[1] in [0, 1000] maps to [acq_pos, clock at the (first) pause call]
                m = acq_pos + (hi - acq_pos) * op[1] // 1000
                m = max(m, K0)
                if len(op) > 3 and op[3] == 'end':
                    # snap to the end of a generated trial's waveform (if one lies in [acq_pos, n_played]) and let the
                    # acquisition catch up to it first: its epoch may already be complete when the pause arrives
                    ends = [t['K'] + len(waves[t['stim']]) for t in trials]
                    ends = [e for e in ends if max(acq_pos, K0) <= e <= hi]
                    if ends:
                        m = min(ends, key=lambda e: abs(e - m))
                        if m > acq_pos:
                            acquire(m - acq_pos)
                if len(op) > 3 and op[3] == 'start':
                    # snap to the onset of a trial that was generated but whose first sample was not yet acquired (the
                    # controller holds the queue exactly where a trial begins): nothing is acquired first
                    starts = [t['K'] for t in trials if max(acq_pos, K0) <= t['K'] <= hi]
                    if starts:
                        m = min(starts, key=lambda e: (abs(e - m), -e))
                if len(op) > 3 and op[3] == 'same' and pauses:
                    # once more at the very position of the previous pause (still between acquired and generated)
                    if max(acq_pos, K0) <= pauses[-1][0] <= n_played:
                        m = pauses[-1][0]
                if m > n_played:
                    continue
                pauses.append((m, len(trials)))
                # the pause time need not lie on the sample grid: the device (and the queue) round it to sample m
                q.pause(as_repr((m + (op[2] if len(op) > 2 else 0)) / fs, hard.get('pause_as')))
                s = stream()[:m]         # the device discards what was not yet played
                played[:] = [s]
                n_played = m
                clean_pause = True
            elif op[0] == 'resume':
                if len(op) > 1 and op[1] and clean_pause and q._source is None and K0 + q._samples == n_played:
                    # resume(t) with t after the clock: the device has played silence in between
                    q.resume((n_played + op[1]) / fs)
                    gap = K0 + q._samples - n_played
                    if gap < 0:
                        raise RuntimeError('resume(t) moved the clock backwards')
                    played.append(np.zeros(gap))
                    n_played += gap
                else:
                    q.resume()
                clean_pause = False
        # flush: let everything pending complete
        q.resume()
        generate(case['flush'])
        while acq_pos < n_played:
            acquire(case['flush_chunk'])
        return {'stream': stream(), 'trials': trials, 'calls': calls, 'pauses': pauses, 'waves': waves,
                'out': out_lines, 'out2': out2, 'notes': notes, 'K0': K0, 'removed_pos': removed_pos}
    finally:
        np.random.set_state(state)


_CACHE = {}


def sim_cached(case, with_extractor):
    key = (json.dumps(case, sort_keys=True), with_extractor)
    if key not in _CACHE:
        if len(_CACHE) > 64:
            _CACHE.clear()
        try:
            _CACHE[key] = simulate(case, with_extractor)
        except Exception as e:           # the queue itself raised (e.g. the C03 grouped-queue IndexError)
            _CACHE[key] = {'error': type(e).__name__, 'calls': [], 'out': []}
    return _CACHE[key]


def rle_match(stream, ep, s):
    """'s+L' when the epoch equals stream[s:s+L] bit for bit, else 'X'."""
    L = ep.shape[-1]
    if s < 0 or s + L > len(stream):
        return 'X'
    return (f'{s}+{L}' if L else 'E') if np.array_equal(np.asarray(ep).reshape(-1), stream[s:s + L]) else 'X'


class C06(Spec):
    PROP = 'C06'
    MODEL = 'extract'
    PROOF_MODULES = ['PsiProofs.C06']
    DESIGN_REF = 'DESIGN.md §6 C06'
    TRUST = [
        'IEEE-754 binary64 round-to-nearest with unit round-off 2^-53 for + - * / in the normal range (assumed, not '
        'proved; the float-level stream of this check exercises it with the real interpreter)',
        'the discrete composition is proved over the concrete queue model of C02-C04 composed with the extractor model of C05 '
        '(e2e_composed_*; Helper/C06_Compose.lean mirrors simulate() below), for every run, dictionary keys (t0, key) re-used '
        'after a pause on a trial start included (C05 ValidSeq is derived from the queue model); the queue itself is exercised '
        'here as real code',
        'modelled, not verified: NumPy/PipelineData slicing and concatenation',
    ]
    ASSUMPTIONS = [
        'one epoch length per extractor; epoch covers the stimulus (L - prestim >= waveform length) and ends before the '
        'next trial starts (L - prestim <= len + delay)',
        'queue start and prestim on the sample grid for the exact-equality float stream; off-grid prestim kept at least '
        '0.1 sample away from a half-sample tie',
        'positions below 2^49 samples',
        'pause positions lie between what has been acquired and what has been generated; the played stream is truncated there',
    ]
    RULE = ('float: fs from the property list + random doubles in [8k, 400k]; queue start 0 or on-grid; k log-uniform up to '
            '2^40 and dense (-3..+3) around powers of two; prestim 0 / on grid / off grid. pipe: every queue policy, 1-4 stimuli '
            '(arrays and real Cos2Envelope tone factories, durations and delays off the sample grid), generation and '
            'acquisition partitions drawn independently, 0-2 pauses at positions anywhere between acquired and generated '
            '(including exactly at trial boundaries). pipe-hard: the same, told differently - fs / pause time / delays as int or '
            'NumPy scalars, delays as an iterable (alternating values), waveforms as float32/int32/int64 arrays; queue built via '
            'set_fs, the name->class table, extend() instead of append(), positional arguments, duration spelled out, '
            'pop_buffer(decrement=...) incl. False; prestim at a non-default value (on/off grid, look-back buffer = prestim or '
            'more); acquisition chunk edges at -1/0/+1 around every trial start, epoch start, waveform end and epoch end; '
            'pause before anything was generated, resume without pause, two pauses without a resume, resume(t) after the clock; '
            'pipe-repause: two to four pause/resume cycles at one and the same time point - the onset of a trial generated but '
            'not yet acquired, mid-waveform, a waveform end - with a few samples fetched in between, before acquisition '
            'continues (several added/removed pairs of one (t0, key) in a single extractor call); '
            'stimuli appended while the queue runs or after it ran out; the caller overwrites the arrays it appended, every '
            'buffer pop_buffer returned and every batch of epochs it was handed; other queues/extractors with other parameters '
            'built and used first. pipe-scale: > 1000 trials / waveforms of 2^16 samples. '
            'Non-trivial: float case with k > 0; pipe case with at least 2 trials.')
    exhaustive_note = {'quick': '', 'thorough': ''}
    PARALLEL = 16

    # ------------------------------------------------------------------ cases
    def _float_cases(self, rng, n):
        for i in range(n):
            fs = rng.choice(FS_LIST) if rng.random() < 0.6 else rng.uniform(8000, 400000)
            K0 = 0 if rng.random() < 0.5 else rng.randint(1, 10 ** rng.randint(1, 9))
            mode = rng.random()
            if mode < 0.4:
                k = int(2 ** rng.uniform(0, 40))
            elif mode < 0.8:
                k = max(0, 2 ** rng.randint(1, 40) + rng.randint(-3, 3))
            else:
                k = rng.randint(0, 10 ** 6)
            pm = rng.random()
            if pm < 0.4:
                P, f = 0, 0.0
            elif pm < 0.7:
                P, f = rng.randint(1, 5000), 0.0
            else:
                P, f = rng.randint(0, 5000), rng.choice([0.25, -0.25, 0.4, -0.4, 0.3, -0.1])
            if K0 + k - P < 0:
                P, f = 0, 0.0
            c = {'kind': 'float', 'fs': fs, 'K0': K0, 'k': k, 'P': P, 'f': f}
            if i % 4 == 3:
                c['as'] = rng.choice(['np', 'np64', 'int'])
            yield c

    def _pipe_case(self, rng, big, hardened=False, scale=None):
        """hardened: the same kind of history told through other representations, construction routes, non-default
        options (prestim!), unusual but legal op orders and a caller that overwrites what it got / passed in.
        scale: 'many' (over a thousand trials) or 'long' (waveforms of 2^16 samples)."""
        fs = rng.choice(FS_LIST) if rng.random() < 0.75 else rng.uniform(8000, 400000)
        policy = rng.choice(POLICIES)
        H = (lambda p: rng.random() < p) if hardened else (lambda p: False)
        nst = rng.randint(1, 4)
        use_tone = rng.random() < 0.4
        stims = []
        # one epoch length per extractor: all stimuli share the duration
        if scale:
            use_tone = scale == 'long' and rng.random() < 0.5
        if use_tone:
            dur = rng.choice([1.03e-3, 2.5e-3 + 0.3 / fs, 5e-3, 80.4 / fs])
            if scale == 'long':
                dur = (2 ** 16 + 0.3) / fs
            wlen = int(round(dur * fs))
        else:
            wlen = rng.randint(3, 60)
            if scale == 'long':
                wlen = 2 ** 16 + rng.randint(-1, 1)
            elif scale == 'many':
                wlen = rng.randint(2, 6)
            dur = wlen / fs
        delay_s = rng.choice([0, 0, 1, 3, 10, 25])
        delay = (delay_s + rng.choice([0, 0, 0.3, -0.3, 0.45])) / fs if delay_s else rng.choice([0, 0.3 / fs])
        delay = max(delay, 0)
        dsamp = int(round(delay * fs))
        delay_as = rng.choice(['cycle', 'cycle', 'int', 'np64']) if H(0.4) else None
        wdtype = rng.choice(['f4', 'i4', 'i8']) if H(0.3) else None

        def mk_stim(tr):
            if use_tone:
                st = {'kind': 'tone', 'freq': float(rng.choice([250, 1000, 4000])), 'dur': dur,
                      'rise': min(0.5e-3, dur / 4), 'trials': tr, 'delay': delay}
            else:
                st = {'kind': 'array', 'n': wlen, 'trials': tr, 'delay': delay}
                if wdtype:
                    st['dtype'] = wdtype
            if delay_as:
                st['delay_as'] = delay_as
                if delay_as == 'cycle' and rng.random() < 0.6:
                    st['delay2'] = delay + rng.choice([1, 4, 4.3]) / fs     # alternating inter-trial delays
            return st
        for i in range(nst):
            tr = rng.randint(1, 4 if big else 3)
            if scale == 'many':
                tr = rng.randint(300, 600)
            stims.append(mk_stim(tr))
        group = rng.choice([g for g in range(1, nst + 1) if nst % g == 0])
        K0 = rng.choice([0, 0, 7, 1000, 123457])
        # epoch: covers the stimulus, ends before the next trial
        post_s = rng.randint(0, dsamp)
        em = rng.random()
        if em < 0.5:
            epoch_size, post = dur, post_s / fs
        elif em < 0.8:
            epoch_size, post = None, post_s / fs
        else:
            epoch_size, post = (wlen + post_s) / fs, 0
        pre, buffer = 0, rng.choice([0, 0, 20 / fs])
        if H(0.5):
            # prestim at a non-default value: on the grid or off it (not near a half-sample tie).  The request becomes
            # visible when the trial is generated, i.e. up to P samples after its first sample was acquired, so the
            # look-back buffer must hold at least P samples; the first trial must not start before sample P.
            Pn = rng.choice([1, 2, 5, 17, wlen])
            pre = (Pn + rng.choice([0, 0, 0.3, -0.3])) / fs
            buffer = (Pn + rng.choice([0, 0, 1, 30])) / fs
            K0 = max(K0, Pn) if rng.random() < 0.7 else Pn
            # two off-grid terms (duration and prestim) may round, as a sum, to one sample less than the parts: the epoch
            # would then be shorter than prestim + waveform (outside "the epoch covers the stimulus"); keep prestim on the
            # grid in that case
            size = dur if epoch_size is None else epoch_size
            if round((size + post + pre) * fs) - round(pre * fs) != round((size + post) * fs):
                pre = Pn / fs
        total = sum(s['trials'] for s in stims) * (wlen + dsamp) + 50
        # operations
        ops = []
        npause = rng.choice([0, 0, 0, 1, 1, 2])
        budget = total
        pause_at = sorted(rng.sample(range(1, 12), npause)) if npause else []
        step = 0
        def pause_op():
            return ['pause', rng.choice([0, 1000, 500, rng.randint(0, 1000), rng.randint(0, 1000)]),
                    rng.choice([0, 0, 0.3, -0.3, 0.45, -0.45]), rng.choice(['', '', 'end']),
                    rng.choice([0, 0, 0, 5, 40])]
        late = []
        if H(0.15):
            # unusual but legal beginnings: pause before anything was generated; resume without a pause
            ops.append(pause_op() if rng.random() < 0.6 else ['resume'])
            if ops[-1][0] == 'pause' and rng.random() < 0.5:
                ops.append(['gen', rng.randint(1, 20)])
            if ops[-1][0] != 'resume':
                ops.append(['resume'])
        while budget > 0 and step < 14:
            step += 1
            g = rng.choice([1, 2, 5, wlen, wlen + dsamp, 2 * (wlen + dsamp) + 1, rng.randint(1, max(2, total // 3))])
            if scale:
                g = rng.choice([1, wlen, total // 5, total // 3, total // 2])
            ops.append(['gen', g])
            budget -= g
            if rng.random() < 0.7:
                ops.append(['acq', rng.choice([1, 3, wlen, rng.randint(1, max(2, g))])])
            if H(0.3):
                # acquisition chunk edge exactly at / one sample around a trial start, epoch start, waveform end, epoch end
                ops.append(['acq_to', rng.randint(0, 1000), rng.choice([-1, 0, 0, 1])])
            if H(0.06) and policy in ('fifo', 'random', 'interleaved', 'interleaved_nokeep') and len(late) < 2:
                # a stimulus added while the queue is running (or after it ran out)
                late.append(mk_stim(rng.randint(1, 2)))
                ops.append(['append', len(late) - 1])
            if step in pause_at:
                ops.append(pause_op())
                if rng.random() < 0.7:
                    ops.append(['gen', rng.randint(1, 30)])
                    if rng.random() < 0.5:
                        ops.append(['acq', rng.randint(1, 40)])
                if H(0.25):
                    # a second pause without a resume in between
                    ops.append(pause_op())
                    if rng.random() < 0.5:
                        ops.append(['gen', rng.randint(1, 30)])
                # resume(), or resume(t) with t a few samples after the clock
                ops.append(['resume', rng.choice([1, 3, 50])] if H(0.3) else ['resume'])
                if H(0.1):
                    ops.append(['resume'])
        second = None
        if rng.random() < 0.3:
            # another consumer of the same notifications with a different epoch size (in samples: wlen - 3 ... wlen + post)
            # (never shorter than the waveform: the property is about epochs holding the stimulus and then silence)
            cands = [wlen + k for k in (0, 1, 2, post_s) if 0 <= k <= dsamp and (wlen + k) / fs != epoch_size]
            second = rng.choice(cands) / fs if cands else None
        case = {'kind': 'pipe', 'second': second, 'fs': fs, 'policy': policy, 'group': group, 'stims': stims, 'K0': K0,
                'epoch_size': epoch_size, 'pre': pre, 'post': post, 'buffer': buffer,
                'ops': ops, 'flush': 2 * total + 200, 'flush_chunk': rng.choice([7, 50, 1000, 100000]),
                'seed': rng.randint(0, 10 ** 6)}
        if scale:
            case['kind'] = 'pipe-scale'
            case['flush'] = total + 200
            case['flush_chunk'] = rng.choice([1000, 100000, 2 ** 16 + 1])
        if not hardened:
            return case
        case['kind'] = 'pipe-hard' if not scale else 'pipe-scale'
        if late:
            case['late'] = late
            case['flush'] += 2 * sum(st['trials'] for st in late) * (wlen + dsamp + 5)
        hard = {}
        if H(0.3):
            hard['fs_as'] = rng.choice(['np64', 'int'])
        if H(0.2):
            hard['pause_as'] = 'np64'
        if H(0.3):
            hard['set_fs'] = True
        if H(0.2):
            hard['registry'] = True
        if H(0.3):
            hard['pos'] = True
        if H(0.3):
            hard['extend'] = True
        if H(0.25):
            hard['explicit_duration'] = True
        if H(0.3):
            hard['decrement'] = rng.choice(['pos', 'kw', 'kw', 'off'])
            if hard['decrement'] == 'off' and scale:
                hard['decrement'] = 'kw'
        for k in ('clobber_src', 'clobber_out', 'clobber_epochs'):
            if H(0.4):
                hard[k] = True
        case['hard'] = hard
        if H(0.15) and not scale:
            d = self._pipe_case(rng, big=False)
            d['ops'] = d['ops'][:6]
            case['decoy'] = d
        return case

    def _repause_case(self, rng, hardened):
        """k >= 2 pause/resume cycles at ONE time point before acquisition continues: pause exactly at the onset of a
        trial that was generated but not yet acquired (or mid-waveform / at a waveform end), resume there, fetch a few
        samples (the re-queued trial restarts at the same t0 - with the same key for FIFO), pause at the same time again,
        resume ... so that added / removed / added / removed / added of one (t0, key) reach the extractor in one call."""
        case = self._pipe_case(rng, big=rng.random() < 0.3, hardened=hardened)
        case['kind'] = 'pipe-repause'
        case.pop('late', None)
        if rng.random() < 0.5:
            case['policy'] = 'fifo'
        st0 = case['stims'][0]
        wl = st0['n'] if st0['kind'] == 'array' else int(round(st0['dur'] * case['fs']))
        ops = []
        if rng.random() < 0.6:
            g = rng.choice([1, wl, wl + 3, 2 * wl + 5])
            ops += [['gen', g], ['acq', rng.randint(1, g)]]
        for cyc in range(rng.choice([1, 1, 2])):
            ops.append(['gen', rng.choice([1, 2, wl, wl + 1, 2 * wl, 3 * wl + 7])])
            if rng.random() < 0.3:
                ops.append(['acq', rng.choice([1, 2, wl])])
            where = rng.choice(['start', 'start', 'start', '', 'end'])
            sel = 1000 if (where == 'start' and rng.random() < 0.7) else rng.randint(0, 1000)
            ops.append(['pause', sel, rng.choice([0, 0, 0.3, -0.3]), where, 0])
            for r in range(rng.choice([1, 2, 2, 3])):
                ops.append(['resume'])
                if rng.random() < 0.9:
                    ops.append(['gen', max(1, rng.choice([1, 2, 3, wl - 1, wl, wl + 2]))])
                ops.append(['pause', 0, rng.choice([0, 0, 0.3, -0.3]), 'same', 0])
            ops.append(['resume'])
            if rng.random() < 0.7:
                ops.append(['gen', rng.choice([1, wl, 2 * wl + 3])])
                ops.append(['acq', rng.choice([1, wl, 3 * wl])])
        case['ops'] = ops
        return case

    def cases(self, rng, tier):
        quick = tier == 'quick'
        yield from self._float_cases(rng, 4000 if quick else 150000)
        for i in range(2 if quick else 8):
            yield self._pipe_case(rng, big=False, hardened=(i % 2 == 1), scale=('many', 'long')[i % 2])
        for i in range(600 if quick else 2500):
            yield self._pipe_case(rng, big=(i % 3 == 0))
            yield self._pipe_case(rng, big=(i % 3 == 0), hardened=True)
        for i in range(150 if quick else 1200):
            yield self._repause_case(rng, hardened=(i % 3 == 2))

    # ------------------------------------------------------------------ lines
    @staticmethod
    def _ids(sim):
        ids = {}
        for c in sim['calls']:
            for (t0, st, dur) in c['reqs']:
                ids.setdefault((t0, st), len(ids))
        return ids

    def model_lines(self, case):
        if case['kind'] == 'float':
            return [f"rt {case['K0']} {case['k']} {case['P']}"]
        sim = sim_cached(case, False)
        if 'error' in sim:
            return ['new 0 1']
        ids = self._ids(sim)
        lines = [f"new {round(case['buffer'] * case['fs'])} 1"]
        for c in sim['calls']:
            rq = []
            for (t0, st, dur) in c['reqs']:
                s, ln = conv(case, {'t0': t0, 'duration': dur})
                rq.append(f'{ids[(t0, st)]}:{s}:{ln}:{st}')
            rm = [str(ids[(t0, st)]) for (t0, st) in c['rems'] if (t0, st) in ids]
            lines.append(f"data {c['start']}:{c['n']} {','.join(rq) or '-'} {','.join(rm) or '-'} 1")
        return lines

    def impl_lines(self, case):
        if case['kind'] == 'float':
            return [f"ok {int(float_roundtrip(case['fs'], case['K0'], case['k'], case['P'] + case['f'], case.get('as')))}"]
        sim = sim_cached(case, True)
        if 'error' in sim:
            return [f"queue-raised {sim['error']}"]
        ids = self._ids(sim)
        stream = sim['stream']
        out = ['ok']
        for (new, ndone, err) in sim['out']:
            if err:
                out.append(err)
                continue
            items = []
            for merged in new:
                arr = np.asarray(merged)
                for e in range(arr.shape[0]):
                    md = merged.metadata[e]
                    key = (md.get('t0'), None)
                    k = None
                    for (t0, st), i in ids.items():
                        if t0 == md.get('t0') and st == md.get('stim'):
                            k = i
                    s, _ = conv(case, {'t0': md.get('t0'), 'duration': md.get('duration')})
                    items.append(f"k{k}t{md.get('stim')}={rle_match(stream, arr[e], s)}")
            items.sort()
            out.append(f"ok {';'.join(items) or '-'} done={ndone}")
        return out

    # ------------------------------------------------------------------ oracle
    def oracle(self, case, out):
        if case['kind'] == 'float':
            want = case['K0'] + case['k'] - case['P']
            if out[0] != f'ok {want}':
                return (f"fs={case['fs']!r}: queue publishes t0 for sample {case['K0']}+{case['k']}, prestim "
                        f"{case['P'] + case['f']} samples; extractor computes {out[0][3:]}, expected {want}")
            return None
        if out and out[0].startswith('HARNESS-EXC'):
            return f'pipeline raised: {out[0]}'
        sim = sim_cached(case, True)
        if 'error' in sim:
            return f"the queue raised {sim['error']}"
        for j, l in enumerate(out[1:]):
            if not l.startswith('ok '):
                return f'extractor call {j} raised/finished: {l}'
        # C06 speaks about trials that were / were not cancelled: that is what the queue's own `removed`
        # notifications say (whether the queue cancels the right trials is C04's statement, checked there).  A trial
        # whose nominal duration ends a fraction of a sample after the pause position is cancelled and re-presented
        # by the queue although all its samples were played; judging it "not cancelled" from the sample grid
        # would demand more than the property states.
        f = self._check(case, sim, by_notification=True)
        if f is None and case.get('second'):
            errs = [e for (_, _, e) in sim['out2'] if e]
            if errs:
                return f'second extractor (epoch_size {case["second"]!r}) on the same queue: {errs[0]}'
            f = self._check(dict(case, epoch_size=case['second'], post=0), dict(sim, out=sim['out2']), by_notification=True)
            if f is not None:
                f = f'second extractor (epoch_size {case["second"]!r}) on the same queue: ' + f
        return f

    def _check(self, case, sim, by_notification):
        """The end-to-end statement.  `cancelled` is decided either on the sample grid (a later pause position
        lies before the trial's last sample) or by the queue's own `removed` notifications."""
        fs = case['fs']
        stream = sim['stream']
        delivered = {}
        for (new, ndone, err) in sim['out']:
            for merged in new:
                arr = np.asarray(merged)
                for e in range(arr.shape[0]):
                    md = merged.metadata[e]
                    delivered.setdefault((md.get('t0'), md.get('stim')), []).append(np.asarray(arr[e]).reshape(-1))
        trials = sim['trials']
        P = round(case['pre'] * fs)
        for tr in trials:
            wave = sim['waves'][tr['stim']]
            if by_notification:
                cancelled = any(pos > tr['pos'] for pos in sim['removed_pos'].get((tr['t0'], tr['stim']), []))
            else:
                cancelled = any(ntr > tr['idx'] and tr['K'] + len(wave) > m for (m, ntr) in sim['pauses'])
            # a later trial with the same (t0, stim) stands for the same dictionary key: judge the pair by its last member
            same = [t for t in trials if (t['t0'], t['stim']) == (tr['t0'], tr['stim'])]
            if same[-1] is not tr:
                continue
            eps = delivered.get((tr['t0'], tr['stim']), [])
            if cancelled:
                if eps:
                    return (f"trial {tr['idx']} (stim {tr['stim']}, start sample {tr['K']}) was cancelled by a pause "
                            f"but {len(eps)} epoch(s) were delivered for it")
                continue
            s, L = conv(case, {'t0': tr['t0'], 'duration': tr['dur']})
            if s + L > len(stream):
                continue
            if len(eps) != 1:
                return (f"trial {tr['idx']} (stim {tr['stim']}, start sample {tr['K']}, not cancelled) yielded {len(eps)} "
                        f"epochs, expected exactly one")
            ep = eps[0]
            if s != tr['K'] - P:
                return (f"trial {tr['idx']}: queue started it at sample {tr['K']}, extractor converted t0={tr['t0']!r} to "
                        f"sample {s} (prestim {P})")
            n = min(len(wave), L - P)
            if len(ep) != L or not np.array_equal(ep[P:P + n], wave[:n]):
                return f"trial {tr['idx']} (start {tr['K']}): epoch is not bit-identical to the source waveform"
            # silence lasts until the next trial starts on the played timeline (after a resume this can be
            # earlier than the nominal inter-trial delay)
            later = [t['K'] for t in trials if t['idx'] > tr['idx']]
            stop = min([L] + [k - s for k in later if k - s >= P + n])
            if np.any(ep[P + n:stop] != 0):
                return f"trial {tr['idx']} (start {tr['K']}): samples after the waveform are not silence"
        return None

    def nontrivial(self, case, out):
        if case['kind'] == 'float':
            return case['k'] > 0
        return sum(s['trials'] for s in case['stims']) >= 2

    def known(self, case, failure):
        """A failure is *inherited from C04* when the extractor did exactly what the queue's own
        `removed` notifications said (the end-to-end statement holds with "cancelled" read off the
        notifications) and only the queue's cancellation decisions differ from the sample grid:
        the recorded pause/requeue defects of queue.py (re-cancel on a second pause, float tie at a
        trial end).  Anything else is a C06 violation."""
        if case['kind'] not in ('pipe',):
            return None
        if not any(o[0] == 'pause' for o in case['ops']):
            return None
        sim = sim_cached(case, True)
        if 'error' in sim:
            # C03: GroupedFIFOSignalQueue indexes a group that a pause/requeue (or completion) left smaller than group_size
            if sim['error'] == 'IndexError' and case['policy'] in ('grouped', 'blocked_fifo'):
                return 'C03-inherited-grouped-indexerror'
            return None
        if any(err for (_, _, err) in sim['out']):
            return None
        if self._check(case, sim, by_notification=True) is None:
            return 'C04-inherited-cancel-decision'
        # more `removed` notifications for a (t0, key) than trials carrying it had been added: the queue
        # notified one cancellation twice (second pause re-cancels), and the surplus removal swallows the
        # re-presented trial at the extractor
        import re
        m = re.match(r'trial (\d+) \(stim \d+, start sample \d+, not cancelled\) yielded 0 epochs', failure or '')
        if not m:
            return None
        tr = sim['trials'][int(m.group(1))]
        key = (tr['t0'], tr['stim'])
        poss = sim['removed_pos'].get(key, [])
        n_added = sum(1 for t in sim['trials'] if (t['t0'], t['stim']) == key and t['pos'] < (poss[-1] if poss else 0))
        if len(poss) > n_added:
            return 'C04-inherited-duplicate-removed'
        return None

    def neighbours(self, case, rng):
        if case['kind'] == 'float':
            for d in (-2, -1, 1, 2):
                if case['k'] + d >= 0:
                    yield dict(case, k=case['k'] + d)
            return
        for _ in range(10):
            c = dict(case)
            c['ops'] = [[o[0], max(1, o[1] + rng.randint(-2, 2))] if o[0] in ('gen', 'acq') else list(o) for o in case['ops']]
            yield c

    def shrink_candidates(self, case):
        if case['kind'] not in ('pipe', 'pipe-repause'):
            return
        ops = case['ops']
        for i in range(len(ops)):
            if ops[i][0] == 'resume':
                continue
            c = dict(case)
            c['ops'] = ops[:i] + ops[i + 1:]
            yield c
        for i, st in enumerate(case['stims']):
            if len(case['stims']) > 1 and case['policy'] != 'grouped':
                c = dict(case)
                c['stims'] = case['stims'][:i] + case['stims'][i + 1:]
                yield c
            if st['trials'] > 1:
                c = dict(case)
                c['stims'] = [dict(s, trials=s['trials'] - 1) if j == i else s for j, s in enumerate(case['stims'])]
                yield c
        if case['K0'] and not case['pre']:
            yield dict(case, K0=0)
        # drop the hardening decorations one by one
        if case.get('decoy'):
            yield {k: v for k, v in case.items() if k != 'decoy'}
        if case.get('second'):
            yield dict(case, second=None)
        for k in list(case.get('hard') or {}):
            yield dict(case, hard={kk: v for kk, v in case['hard'].items() if kk != k})
        for i, st in enumerate(case['stims']):
            for k in ('delay_as', 'dtype'):
                if k in st:
                    yield dict(case, stims=[{kk: v for kk, v in s_.items() if kk != k} if j == i else s_
                                            for j, s_ in enumerate(case['stims'])])

    def describe(self, case):
        if case['kind'] == 'float':
            return f"float fs={case['fs']!r} K0={case['K0']} k={case['k']} prestim={case['P'] + case['f']} samples"
        return (f"pipe fs={case['fs']!r} policy={case['policy']} stims={case['stims']} K0={case['K0']} "
                f"epoch_size={case['epoch_size']} post={case['post']} ops={case['ops']}")


SPEC = C06()
