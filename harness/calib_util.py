"""Shared helpers of the float-transcription checks C07 / C16 / C08 (model: `psidriver calib`).

The Lean `Float` instance of PsiModel/DbField.lean and the real psiaudio methods evaluate the
same formulas through different libm / NumPy code paths, so results are compared *numerically*
inside ``impl_lines`` with a transcription tolerance; floats are never string-compared.

Protocol: floats cross the pipe as the decimal value of their IEEE-754 bit pattern.
``impl_lines`` echoes the model's own reply when the implementation agrees with it within
tolerance (so the framework's line diff is empty) and prints its own canonical reply otherwise.
"""
import math
import struct
import warnings

import numpy as np

from . import common as C
from .framework import Spec

RTOL = 1e-12          # transcription tolerance (relative), scalar results
NAN = float('nan')


def f2b(x):
    return str(struct.unpack('<Q', struct.pack('<d', float(x)))[0])


def b2f(s):
    return struct.unpack('<d', struct.pack('<Q', int(s)))[0]


def fl(xs):
    xs = list(xs)
    return ','.join(f2b(x) for x in xs) if xs else '-'


# ---- implementation results --------------------------------------------------
# ('ok',) | ('num', x, tol) | ('vals', [x...], tol) | ('err', 'ClassName')
# tol = (rtol, atol): |m - x| <= rtol*max(|m|,|x|) + atol ; for 'vals' the relative part is
# taken against the largest magnitude of the whole vector (spectra / waveforms).

def num(x, rtol=RTOL, atol=0.0):
    return ('num', float(x), (rtol, atol))


def vals(xs, rtol=RTOL, atol=0.0):
    return ('vals', [float(v) for v in np.asarray(xs, dtype=float).ravel()], (rtol, atol))


def cvals(zs, rtol=RTOL, atol=0.0):
    zs = np.asarray(zs, dtype=complex).ravel()
    out = []
    for z in zs:
        out += [z.real, z.imag]
    return ('vals', [float(v) for v in out], (rtol, atol))


def err(e):
    return ('err', type(e).__name__ if not isinstance(e, str) else e)


def parse_model(line):
    w = line.split()
    if not w:
        return ('bad', line)
    if w[0] == 'ok':
        return ('ok',)
    if w[0] == 'nan':
        return ('num', NAN)
    if w[0] == 'num' and len(w) == 2:
        return ('num', b2f(w[1]))
    if w[0] == 'vals':
        return ('vals', [b2f(v) for v in w[1:]])
    if w[0] == 'err' and len(w) == 2:
        return ('err', w[1])
    return ('bad', line)


def close(m, x, rtol, atol, scale=None):
    if math.isnan(m) or math.isnan(x):
        return math.isnan(m) and math.isnan(x)
    if math.isinf(m) or math.isinf(x):
        return m == x
    s = max(abs(m), abs(x)) if scale is None else scale
    return abs(m - x) <= rtol * s + atol


def canon(r):
    if r[0] == 'ok':
        return 'ok'
    if r[0] == 'num':
        return 'nan' if math.isnan(r[1]) else f'num {f2b(r[1])} ~{r[1]!r}'
    if r[0] == 'vals':
        v = r[1]
        return 'vals ' + ' '.join(f2b(x) for x in v[:64]) + (f' …({len(v)})' if len(v) > 64 else '')
    if r[0] == 'err':
        return f'err {r[1]}'
    return str(r)


def agree(mline, r):
    """Does the implementation result `r` agree with the model's reply `mline`?"""
    m = parse_model(mline)
    if m[0] != r[0]:
        return False
    if m[0] == 'ok':
        return True
    if m[0] == 'err':
        return m[1] == r[1]
    if m[0] == 'num':
        return close(m[1], r[1], *r[2])
    if m[0] == 'vals':
        if len(m[1]) != len(r[1]):
            return False
        fin = [abs(v) for v in m[1] + r[1] if math.isfinite(v)]
        scale = max(fin) if fin else 0.0
        rtol, atol = r[2]
        return all(close(a, b, rtol, atol, scale) for a, b in zip(m[1], r[1]))
    return False


def first_diff(mline, r):
    m = parse_model(mline)
    if m[0] == 'vals' and r[0] == 'vals' and len(m[1]) == len(r[1]):
        fin = [abs(v) for v in m[1] + r[1] if math.isfinite(v)]
        scale = max(fin) if fin else 0.0
        for i, (a, b) in enumerate(zip(m[1], r[1])):
            if not close(a, b, r[2][0], r[2][1], scale):
                return f'[{i}] model {a!r} impl {b!r} (scale {scale!r})'
    return ''


class quiet:
    """Silence NumPy floating-point warnings (log10 of 0 / negative numbers are part of the domain)."""

    def __enter__(self):
        self._e = np.errstate(all='ignore')
        self._e.__enter__()
        self._w = warnings.catch_warnings()
        self._w.__enter__()
        warnings.simplefilter('ignore')

    def __exit__(self, *a):
        self._w.__exit__(*a)
        self._e.__exit__(*a)


class FloatSpec(Spec):
    """Spec whose model replies are floats: subclasses give ``model_lines`` and ``impl_results``."""
    MODEL = 'calib'
    BATCH = True

    def __init__(self):
        self._mcache = {}

    # subclasses: generate cases
    def gen(self, rng, tier):
        raise NotImplementedError

    def impl_results(self, case):
        """One result tuple per model line (see `num`, `vals`, `err`)."""
        raise NotImplementedError

    def cases(self, rng, tier):
        cs = list(self.gen(rng, tier))
        self.prime(cs)
        return cs

    def prime(self, cs):
        """Run the model once on all cases (one driver process) and remember its replies."""
        lines, spans = [], []
        for c in cs:
            ml = self.model_lines(c)
            spans.append((len(lines) + 1, len(ml)))
            lines.append('reset')
            lines.extend(ml)
        try:
            out = C.Driver(self.MODEL).run(lines)
        except Exception:
            return
        for c, (s, n) in zip(cs, spans):
            self._mcache[C.case_hash(c)] = out[s:s + n]

    def model_out(self, case):
        h = C.case_hash(case)
        if h not in self._mcache:
            ml = self.model_lines(case)
            try:
                self._mcache[h] = C.Driver(self.MODEL).run(['reset'] + ml)[1:]
            except Exception as e:
                self._mcache[h] = [f'(driver unavailable: {type(e).__name__})'] * len(ml)
        return self._mcache[h]

    def impl_lines(self, case):
        mout = self.model_out(case)
        with quiet():
            res = self.impl_results(case)
        out = []
        for i, r in enumerate(res):
            m = mout[i] if i < len(mout) else ''
            if agree(m, r):
                out.append(m)
            else:
                d = first_diff(m, r)
                out.append(canon(r) + (f'   first difference {d}' if d else ''))
        return out
