"""C07 — calibration conversions are mutually inverse, additive in dB, and fail loudly.

Model: the `Float` instance of lean/PsiModel/DbField.lean through `psidriver calib`;
implementation: psiaudio.calibration / psiaudio.util in-process.  Each real method is compared
with the model to a *transcription* tolerance (relative 1e-12; not a property tolerance), exception
kinds and NaN exactly.  The oracle evaluates the property's laws directly on the implementation
(tolerance 1e-9 dB).
"""
import math

import numpy as np

from .calib_util import FloatSpec, f2b, fl, num, vals, err, quiet, RTOL

DB_TOL = 1e-9      # property tolerance of the oracle, in dB


# ------------------------------------------------------------------ construction
def _rows(rows):
    return ','.join(':'.join(f2b(v) for v in r) for r in rows)


def ctor_line(k):
    c = k['c']
    if c == 'flat':
        return f"cal flat {f2b(k['S'])} {f2b(k['G'])}"
    if c in ('from_spl', 'from_db'):
        return f"cal {c} {f2b(k['L'])} {f2b(k['v'])} {f2b(k['G'])}"
    if c == 'from_pascals':
        return f"cal from_pascals {f2b(k['m'])} {f2b(k['v'])} {f2b(k['G'])}"
    if c == 'from_mv_pa':
        return f"cal from_mv_pa {f2b(k['m'])}"
    if c == 'unity':
        return 'cal unity'
    if c == 'as_attenuation':
        return f"cal as_attenuation {f2b(k['v'])}"
    if c in ('interp', 'point'):
        return f"cal {c} {f2b(k['G'])} {_rows(sorted(k['tbl']))}"
    if c in ('interp_from_db', 'interp_from_spl', 'point_from_db', 'point_from_spl'):
        return f"cal {c.replace('_spl', '_db')} {f2b(k['G'])} {_rows(sorted(k['rows']))}"
    if c in ('interp_from_pascals', 'point_from_pascals'):
        return f"cal {c} {f2b(k['G'])} {_rows(sorted(k['rows']))}"
    raise ValueError(c)


def mkcal(k):
    from psiaudio import calibration as PC
    c = k['c']
    if c == 'flat':
        return PC.FlatCalibration(k['S'], fixed_gain=k['G'])
    if c == 'from_spl':
        return PC.FlatCalibration.from_spl(k['L'], vrms=k['v'], fixed_gain=k['G'])
    if c == 'from_db':
        return PC.FlatCalibration.from_db(k['L'], vrms=k['v'], fixed_gain=k['G'])
    if c == 'from_pascals':
        return PC.FlatCalibration.from_pascals(k['m'], vrms=k['v'], fixed_gain=k['G'])
    if c == 'from_mv_pa':
        return PC.FlatCalibration.from_mv_pa(k['m'])
    if c == 'unity':
        return PC.FlatCalibration.unity()
    if c == 'as_attenuation':
        return PC.FlatCalibration.as_attenuation(vrms=k['v'])
    cls = PC.InterpCalibration if c.startswith('interp') else PC.PointCalibration
    if c in ('interp', 'point'):
        f = [r[0] for r in k['tbl']]
        s = [r[1] for r in k['tbl']]
        r = k.get('repr')       # the same numbers, written down differently by the caller
        if r == 'intfirst':
            f = [int(v) if float(v).is_integer() else v for v in f]
            s = [int(v) if float(v).is_integer() else v for v in s]
        elif r == 'tuple':
            f, s = tuple(f), tuple(s)
        elif r == 'ndarray':
            f, s = np.array(f), np.array(s)
        return cls(f, s, fixed_gain=k['G'])
    f = np.array([r[0] for r in k['rows']])
    x = np.array([r[1] for r in k['rows']])
    v = np.array([r[2] for r in k['rows']])
    if k.get('scalar_vrms'):
        v = float(v[0])
    meth = c.split('_', 1)[1]          # from_db / from_spl / from_pascals
    return getattr(cls, meth)(f, x, vrms=v, fixed_gain=k['G'])


def is_flat(k):
    return not (k['c'].startswith('interp') or k['c'].startswith('point'))


def table(k):
    """(frequency, expected sensitivity before fixed gain) rows — the *property's* reading of the constructor."""
    c = k['c']
    if c in ('interp', 'point'):
        return sorted((r[0], r[1]) for r in k['tbl'])
    out = []
    for f, x, v in k['rows']:
        if c.endswith('pascals'):
            out.append((f, 20 * math.log10(x / 20e-6) - 20 * math.log10(v)))
        else:
            out.append((f, x - 20 * math.log10(v)))
    return sorted(out)


# ------------------------------------------------------------------ queries
def q_line(q):
    o = q['op']
    if o == 'sens':
        return f"sens {f2b(q['f'])}"
    if o == 'sf':
        return f"sf {f2b(q['f'])} {f2b(q['L'])} {f2b(q['A'])}"
    if o == 'db':
        return f"db {f2b(q['f'])} {f2b(q['v'])}"
    if o == 'att':
        return f"att {f2b(q['f'])} {f2b(q['v'])} {f2b(q['L'])}"
    if o == 'gain':
        return f"gain {f2b(q['f'])} {f2b(q['L'])} {f2b(q['A'])}"
    if o == 'meansf':
        fr = np.arange(q['flb'], q['fub'])
        return f"meansf {f2b(q['flb'])} {f2b(q['L'])} {f2b(q['A'])} {fl(fr)}"
    if o == 'sensv':
        return f"sensv {fl(q['fs'])}"
    if o == 'sfv':
        return f"sfv {f2b(q['L'])} {f2b(q['A'])} {fl(q['fs'])}"
    if o == 'dbv':
        return 'dbv ' + (','.join(f'{f2b(f)}:{f2b(v)}' for f, v in zip(q['fs'], q['vs'])) or '-')
    if o == 'tomvpa':
        return 'tomvpa'
    if o == 'sensitivity':
        return 'sensitivity'
    if o == 'set_fixed_gain':
        return f"set_fixed_gain {f2b(q['G'])}"
    raise ValueError(o)


def scalar_or_vals(x, n=None):
    a = np.asarray(x, dtype=float)
    if a.ndim == 0:
        return num(float(a))
    return vals(a)


def run_query(cal, q):
    import pandas as pd
    from psiaudio.calibration import CalibrationError
    o = q['op']
    try:
        if o == 'sens':
            return num(np.asarray(cal.get_sens(q['f']), dtype=float)[()])
        if o == 'sf':
            return num(np.asarray(cal.get_sf(q['f'], q['L'], q['A']), dtype=float)[()])
        if o == 'db':
            return num(np.asarray(cal.get_db(q['f'], q['v']), dtype=float)[()])
        if o == 'att':
            return num(np.asarray(cal.get_attenuation(q['f'], q['v'], q['L']), dtype=float)[()])
        if o == 'gain':
            return num(np.asarray(cal.get_gain(q['f'], q['L'], q['A']), dtype=float)[()])
        if o == 'meansf':
            n = max(1, q['fub'] - q['flb'])
            return num(np.asarray(cal.get_mean_sf(q['flb'], q['fub'], q['L'], attenuation=q['A']), dtype=float)[()],
                       rtol=RTOL + 4e-16 * n)
        if o == 'sensv':
            return vals(cal.get_sens(np.array(q['fs'], dtype=float)))
        if o == 'sfv':
            return vals(cal.get_sf(np.array(q['fs'], dtype=float), q['L'], q['A']))
        if o == 'dbv':
            if q.get('series'):
                return vals(cal.get_db(pd.Series(q['vs'], index=q['fs'], dtype=float)).values)
            return vals(cal.get_db(np.array(q['fs'], dtype=float), np.array(q['vs'], dtype=float)))
        if o == 'tomvpa':
            return num(cal.to_mv_pa())
        if o == 'sensitivity':
            return vals(np.atleast_1d(np.asarray(cal.sensitivity, dtype=float)))
        if o == 'set_fixed_gain':
            cal.set_fixed_gain(q['G'])
            return ('ok',)
    except CalibrationError as e:
        return err('CalibrationError')
    except ValueError as e:
        return err('ValueError')
    raise ValueError(o)


def sort_sensitivity(k, r):
    """`sensitivity` attribute is in constructor order; the model's table is sorted by frequency."""
    if r[0] != 'vals' or is_flat(k):
        return r
    rows = k.get('tbl') or k.get('rows')
    order = sorted(range(len(rows)), key=lambda i: rows[i][0])
    return ('vals', [r[1][i] for i in order], r[2])


# ------------------------------------------------------------------ the property, on the implementation
def _f(x):
    return float(np.asarray(x, dtype=float)[()])


def _try(fn):
    """value | 'nan' | exception class name"""
    from psiaudio.calibration import CalibrationError
    try:
        v = fn()
    except CalibrationError:
        return 'CalibrationError'
    except ValueError:
        return 'ValueError'
    v = np.asarray(v, dtype=float)
    if v.ndim == 0:
        v = float(v)
        return 'nan' if math.isnan(v) else v
    return v


def db_of(x):
    return 20 * math.log10(x) if x > 0 else float('-inf') if x == 0 else float('nan')


def check_laws(k, queries):
    """None if every law the property states holds at the queried points, else a description."""
    cal = mkcal(k)
    flat = is_flat(k)
    tbl = None if flat else table(k)
    G0 = cal.fixed_gain

    def in_range(f):
        if flat:
            return True
        if k['c'].startswith('interp'):
            return tbl[0][0] <= f <= tbl[-1][0]
        return any(f == r[0] for r in tbl)

    def expected_sens(f):
        """what the property says the sensitivity is at f (None = outside the calibrated range)"""
        if flat:
            return None      # checked through the constructor laws below
        if not in_range(f):
            return None
        if k['c'].startswith('point'):
            return next(r[1] for r in tbl if r[0] == f) - G0
        for (f0, s0), (f1, s1) in zip(tbl, tbl[1:]):
            if f0 <= f <= f1:
                return s0 + (s1 - s0) * (f - f0) / (f1 - f0) - G0
        return None

    for q in queries:
        o = q['op']
        if o == 'set_fixed_gain':
            cal.set_fixed_gain(q['G'])
            G0 = q['G']
            continue
        if o in ('sens', 'sf', 'db', 'att', 'gain'):
            f = q['f']
            L = q.get('L', 60.0)
            A = q.get('A', 0.0)
            v = q.get('v', 0.5)
            inside = in_range(f)
            sens = _try(lambda: cal.get_sens(f))
            sf = _try(lambda: cal.get_sf(f, L, A))
            dbv = _try(lambda: cal.get_db(f, v))
            gain = _try(lambda: cal.get_gain(f, L, A))
            att = _try(lambda: cal.get_attenuation(f, v, L))
            if not inside:
                # outside the calibrated range: NaN or an error, never a level
                want = 'CalibrationError' if k['c'].startswith('point') else 'nan'
                for name, got in (('get_sens', sens), ('get_sf', sf), ('get_db', dbv), ('get_gain', gain),
                                  ('get_attenuation', att)):
                    if got != want:
                        return f'{name}({f!r}) outside the calibrated range returned {got!r}, expected {want}'
                continue
            for name, got in (('get_sens', sens), ('get_sf', sf)):
                if not isinstance(got, float):
                    return f'{name}({f!r}) inside the calibrated range gave {got!r}'
            es = expected_sens(f)
            if es is not None and abs(sens - es) > DB_TOL:
                return (f'get_sens({f!r}) = {sens!r}, the table (linear in dB between points, exact at points) '
                        f'gives {es!r}')
            # inverse laws
            back = _try(lambda: cal.get_db(f, sf))
            if not (isinstance(back, float) and abs(back - (L + A)) <= DB_TOL):
                return f'get_db({f!r}, get_sf({f!r}, {L!r}, {A!r})) = {back!r}, expected {L + A!r}'
            if v > 0:
                if not isinstance(dbv, float):
                    return f'get_db({f!r}, {v!r}) gave {dbv!r}'
                sfb = _try(lambda: cal.get_sf(f, dbv))
                if not (isinstance(sfb, float) and abs(db_of(sfb) - db_of(v)) <= DB_TOL):
                    return f'get_sf({f!r}, get_db({f!r}, {v!r})) = {sfb!r}, expected {v!r}'
                if not (isinstance(att, float) and abs(att - (dbv - L)) <= DB_TOL):
                    return f'get_attenuation({f!r}, {v!r}, {L!r}) = {att!r}, get_db - level = {dbv - L!r}'
            # additivity: level, attenuation, fixed gain are pure dB offsets
            for d in (q.get('d', 20.0), 20.0):
                a = _try(lambda: cal.get_sf(f, L + d, A))
                b = _try(lambda: cal.get_sf(f, L, A + d))
                for name, got in (('level', a), ('attenuation', b)):
                    if not (isinstance(got, float) and abs(db_of(got) - db_of(sf) - d) <= DB_TOL):
                        return (f'get_sf({f!r}, {L!r}, {A!r}) = {sf!r}; +{d!r} dB of {name} gives {got!r} '
                                f'(ratio {got / sf if isinstance(got, float) and sf else None!r}, '
                                f'expected {10 ** (d / 20)!r})')
                cal.set_fixed_gain(G0 + d)
                c = _try(lambda: cal.get_sf(f, L, A))
                cal.set_fixed_gain(G0)
                if not (isinstance(c, float) and abs(db_of(c) - db_of(sf) - d) <= DB_TOL):
                    return f'fixed gain +{d!r} dB changed get_sf({f!r}, {L!r}) from {sf!r} to {c!r}'
            if not (isinstance(gain, float) and abs(gain - db_of(sf)) <= DB_TOL):
                return f'get_gain({f!r}, {L!r}, {A!r}) = {gain!r}, db(get_sf) = {db_of(sf)!r}'
        elif o == 'meansf':
            flb, fub, L, A = q['flb'], q['fub'], q['L'], q['A']
            fr = np.arange(flb, fub)
            got = _try(lambda: cal.get_mean_sf(flb, fub, L, attenuation=A))
            if flat:
                want = _f(cal.get_sf(flb, L, A))
            else:
                ok = len(fr) > 0 and all(in_range(float(x)) for x in fr)
                if not ok:
                    if isinstance(got, float):
                        return (f'get_mean_sf({flb}, {fub}, …) over a range with uncalibrated frequencies '
                                f'returned the level {got!r}')
                    continue
                want = float(np.mean([_f(cal.get_sf(float(x), L, A)) for x in fr]))
            if not (isinstance(got, float) and abs(db_of(got) - db_of(want)) <= DB_TOL):
                return (f'get_mean_sf({flb}, {fub}, {L!r}, attenuation={A!r}) = {got!r}, mean of get_sf with that '
                        f'attenuation = {want!r} (ratio {got / want if isinstance(got, float) else None!r})')
        elif o == 'tomvpa' and k['c'] == 'from_mv_pa':
            got = _try(lambda: cal.to_mv_pa())
            if not (isinstance(got, float) and abs(got - k['m']) <= 1e-9 * abs(k['m'])):
                return f'from_mv_pa({k["m"]!r}).to_mv_pa() = {got!r}'

    # constructor consistency: the device "vrms volts produce this level" is read back at vrms
    c = k['c']
    cal = mkcal(k)
    if c in ('from_spl', 'from_db', 'from_pascals'):
        want = k['L'] if c != 'from_pascals' else 20 * math.log10(k['m'] / 20e-6)
        got = _try(lambda: cal.get_db(1e3, k['v']))
        if not (isinstance(got, float) and abs(got - (want - k['G'])) <= DB_TOL):
            return (f'{c}: {k["v"]!r} Vrms was measured as {want!r} dB, but get_db(1e3, {k["v"]!r}) reads '
                    f'{got!r} (fixed gain {k["G"]!r})')
    if c == 'from_mv_pa':
        got = _try(lambda: cal.get_db(1e3, k['m'] * 1e-3))     # 1 Pa
        want = 20 * math.log10(1 / 20e-6)
        if not (isinstance(got, float) and abs(got - want) <= DB_TOL):
            return f'from_mv_pa({k["m"]!r}): 1 Pa ({k["m"]!r} mV) reads {got!r} dB SPL, expected {want!r}'
        got = _try(lambda: cal.to_mv_pa())
        if not (isinstance(got, float) and abs(got - k['m']) <= 1e-9 * abs(k['m'])):
            return f'from_mv_pa({k["m"]!r}).to_mv_pa() = {got!r}'
    if c == 'unity':
        if _f(cal.get_sf(1e3, 0)) != 1 or _f(cal.get_db(1e3, 1)) != 0:
            return 'unity calibration is not the identity'
    if c == 'as_attenuation':
        got = _try(lambda: cal.get_sf(1e3, 0.0))
        if not (isinstance(got, float) and abs(db_of(got) - db_of(k['v'])) <= DB_TOL):
            return f'as_attenuation({k["v"]!r}): 0 dB attenuation gives {got!r} V'
    if not flat and c not in ('interp', 'point'):
        for f, x, v in k['rows']:
            want = x if not c.endswith('pascals') else 20 * math.log10(x / 20e-6)
            got = _try(lambda: cal.get_db(f, v))
            if not (isinstance(got, float) and abs(got - (want - k['G'])) <= DB_TOL):
                return (f'{c}: at {f!r} Hz {v!r} Vrms was measured as {want!r} dB, but get_db reads {got!r} '
                        f'(fixed gain {k["G"]!r})')
    return None


# ------------------------------------------------------------------ generation
def rnd(rng, lo, hi, nice=None):
    x = rng.uniform(lo, hi)
    if nice is None:
        nice = rng.random() < 0.5
    return float(f'{x:.3g}') if nice else x      # 'nice' = three significant digits (never rounds a positive value to 0)


def gen_table(rng, n, consecutive=False):
    if consecutive:
        f0 = rng.randint(50, 5000)
        fs = [float(f0 + i) for i in range(n)]
    else:
        fs = set()
        while len(fs) < n:
            fs.add(float(rng.choice([rng.randint(20, 20000), round(rng.uniform(20, 20000), 1)])))
        fs = sorted(fs)
    return fs


def gen_ctor(rng, kind):
    G = rng.choice([0.0, 0.0, rnd(rng, -60, 60)])
    if kind == 'flat':
        c = rng.choice(['flat', 'from_spl', 'from_db', 'from_pascals', 'from_mv_pa', 'unity', 'as_attenuation'])
        v = rng.choice([1.0, 0.1, 2.0, rnd(rng, 1e-3, 10)])
        if c == 'flat':
            return {'c': c, 'S': rnd(rng, -60, 160), 'G': G}
        if c in ('from_spl', 'from_db'):
            return {'c': c, 'L': rnd(rng, 20, 130), 'v': v, 'G': G}
        if c == 'from_pascals':
            m = rng.choice([rnd(rng, 1e-3, 50), 20e-6 * 10 ** (rng.choice([80, 94, 100, 110]) / 20)])
            return {'c': c, 'm': m, 'v': v, 'G': G}
        if c == 'from_mv_pa':
            return {'c': c, 'm': rng.choice([1.0, 2.5, 50.0, rnd(rng, 0.1, 100)])}
        if c == 'unity':
            return {'c': c}
        return {'c': c, 'v': v}
    n = rng.randint(2, 8)
    fs = gen_table(rng, n, consecutive=(kind == 'point' and rng.random() < 0.4))
    c = rng.choice([kind, kind, kind + '_from_db', kind + '_from_spl', kind + '_from_pascals'])
    order = list(range(n))
    if rng.random() < 0.3:
        rng.shuffle(order)                      # interp1d sorts; point tables need no order
    if c == kind:
        tbl = [[fs[i], rnd(rng, -40, 140)] for i in order]
        return {'c': c, 'G': G, 'tbl': tbl}
    scalar_v = rng.random() < 0.5
    v0 = rng.choice([1.0, 0.1, 2.0, rnd(rng, 1e-3, 10)])
    rows = []
    for i in order:
        x = rnd(rng, 1e-3, 50) if c.endswith('pascals') else rnd(rng, 20, 130)
        rows.append([fs[i], x, v0 if scalar_v else rng.choice([1.0, rnd(rng, 1e-3, 10)])])
    return {'c': c, 'G': G, 'rows': rows, 'scalar_vrms': scalar_v}


def freqs_of(k):
    if is_flat(k):
        return None
    return sorted(r[0] for r in (k.get('tbl') or k.get('rows')))


def pick_freq(rng, k):
    """on a point, between points, just outside, far outside, or anywhere (flat)"""
    fs = freqs_of(k)
    if fs is None:
        return rng.choice([1e3, 0.0, rnd(rng, 1, 40000)])
    r = rng.random()
    if r < 0.35:
        return rng.choice(fs)
    if r < 0.7:
        i = rng.randrange(len(fs) - 1)
        t = rng.choice([0.5, rng.random(), 1e-9, 1 - 1e-9])
        return fs[i] + (fs[i + 1] - fs[i]) * t
    if r < 0.85:
        return rng.choice([fs[0] - 1e-6, fs[-1] + 1e-6, math.nextafter(fs[0], 0), math.nextafter(fs[-1], 1e9)])
    return rng.choice([0.0, fs[0] / 2, fs[-1] * 2, 1e6])


def gen_queries(rng, k, nq):
    qs = []
    fs = freqs_of(k)
    for _ in range(nq):
        o = rng.choice(['sens', 'sf', 'sf', 'db', 'db', 'att', 'gain', 'meansf', 'sensv', 'sfv', 'dbv',
                        'set_fixed_gain', 'sensitivity'] + (['tomvpa'] * 2 if is_flat(k) else []))
        L = rng.choice([rnd(rng, -20, 120), float(rng.randint(-20, 120))])
        A = rng.choice([0.0, 0.0, 20.0, rnd(rng, 0, 120)])
        v = rng.choice([1.0, rnd(rng, 1e-6, 10), rnd(rng, 1e-6, 10), 10 ** rng.uniform(-6, 1)])
        if rng.random() < 0.04:
            v = rng.choice([0.0, -1.0])          # malformed: not a voltage
        d = rng.choice([20.0, 6.0, rnd(rng, -40, 40)])
        if o in ('sens', 'sf', 'db', 'att', 'gain'):
            qs.append({'op': o, 'f': pick_freq(rng, k), 'L': L, 'A': A, 'v': v, 'd': d})
        elif o == 'meansf':
            if fs is None:
                flb = rng.randint(0, 2000)
                fub = flb + rng.randint(-2, 300)
            else:
                lo, hi = math.ceil(fs[0]), math.floor(fs[-1])
                r = rng.random()
                if r < 0.6 and hi > lo:
                    flb = rng.randint(lo, hi)
                    fub = min(hi + 1, flb + rng.randint(1, 300))
                elif r < 0.8:
                    flb = lo - rng.randint(0, 3)
                    fub = min(hi, lo + 40) + rng.randint(0, 3)
                else:
                    flb = rng.randint(lo, max(lo, hi))
                    fub = flb - rng.randint(0, 2)
            qs.append({'op': o, 'flb': int(flb), 'fub': int(fub), 'L': L, 'A': A})
        elif o in ('sensv', 'sfv', 'dbv'):
            n = rng.randint(0, 6) if not k['c'].startswith('point') else rng.randint(1, 6)
            ff = [pick_freq(rng, k) for _ in range(n)]
            if k['c'].startswith('point') and rng.random() < 0.6:
                ff = [rng.choice(fs) for _ in range(n)]
            q = {'op': o, 'fs': ff, 'L': L, 'A': A}
            if o == 'dbv':
                q['vs'] = [rnd(rng, 1e-6, 10) for _ in ff]
                q['series'] = rng.random() < 0.5 and len(set(ff)) == len(ff) and n > 0
            qs.append(q)
        elif o == 'set_fixed_gain':
            qs.append({'op': o, 'G': rng.choice([0.0, 20.0, -40.0, rnd(rng, -60, 60)])})
        else:
            qs.append({'op': o})
    return qs


class C07(FloatSpec):
    PROP = 'C07'
    PROOF_MODULES = ['PsiProofs.C07']
    DESIGN_REF = 'DESIGN.md §6 C07'
    PARALLEL = 16
    TRUST = [
        'proof is over the real numbers: floating-point round-off of the dB formulas is NOT bounded by a theorem; '
        'the Float instance of the same definitions is compared with the real methods to relative 1e-12 on every run',
        'modelled, not verified: scipy interp1d(kind=linear, bounds_error=False) = piecewise-linear interpolation over '
        'the frequency-sorted table with NaN outside; np.vectorize / broadcasting = pointwise; np.arange; np.mean',
        'InterpCalibration is modelled for the default fill_value=nan and tables of >= 2 distinct frequencies; '
        'phase interpolation, make_eq_filter and the pandas DataFrame form of get_db are not modelled',
    ]
    ASSUMPTIONS = ['tables have distinct frequencies', 'voltages are positive in the inverse law v -> dB -> v']
    RULE = ('seeded random calibrations of every class and constructor (flat, from_spl, from_db, from_pascals, '
            'from_mv_pa, unity, as_attenuation; interp/point direct and from_db/from_spl/from_pascals with scalar or '
            'per-row vrms, shuffled tables), each with 8-14 queries (get_sens/get_sf/get_db/get_attenuation/get_gain, '
            'get_mean_sf, array and Series forms, set_fixed_gain, to_mv_pa) at frequencies on / between / just outside / '
            'far outside the table; levels -20..120, attenuations 0..120. A case is non-trivial when at least one query '
            'returns a number and the calibration is not the unity one; distinct = distinct case hash.')

    def gen(self, rng, tier):
        n = 700 if tier == 'quick' else 14000
        for i in range(n):
            kind = ('flat', 'interp', 'point')[i % 3]
            k = gen_ctor(rng, kind)
            yield {'kind': k['c'], 'ctor': k, 'queries': gen_queries(rng, k, rng.randint(8, 14))}

    def model_lines(self, c):
        return [ctor_line(c['ctor'])] + [q_line(q) for q in c['queries']]

    def impl_results(self, c):
        k = c['ctor']
        try:
            cal = mkcal(k)
        except ValueError:
            return [err('ValueError')] + [err('NoCalibration')] * len(c['queries'])
        out = [('ok',)]
        for q in c['queries']:
            r = run_query(cal, q)
            if q['op'] == 'sensitivity':
                r = sort_sensitivity(k, r)
            out.append(r)
        return out

    def oracle(self, c, impl_out):
        with quiet():
            return check_laws(c['ctor'], c['queries'])

    def nontrivial(self, c, out):
        return c['ctor']['c'] != 'unity' and any(l.startswith('num') or l.startswith('vals ') for l in out)

    def neighbours(self, c, rng):
        for _ in range(40):
            yield {'kind': c['kind'], 'ctor': c['ctor'], 'queries': gen_queries(rng, c['ctor'], 10)}

    def shrink_candidates(self, c):
        qs = c['queries']
        for i in range(len(qs)):
            yield {'kind': c['kind'], 'ctor': c['ctor'], 'queries': qs[:i] + qs[i + 1:]}
        k = c['ctor']
        for key in ('tbl', 'rows'):
            if key in k and len(k[key]) > 2:
                for i in range(len(k[key])):
                    k2 = dict(k)
                    k2[key] = k[key][:i] + k[key][i + 1:]
                    yield {'kind': c['kind'], 'ctor': k2, 'queries': qs}
        if k.get('G'):
            k2 = dict(k)
            k2['G'] = 0.0
            yield {'kind': c['kind'], 'ctor': k2, 'queries': qs}

    def describe(self, c):
        return f"{c['ctor']}  queries={c['queries']}"[:600]


SPEC = C07()
