"""C07 — calibration conversions are mutually inverse, additive in dB, and fail loudly.

Model: the `Float` instance of lean/PsiModel/DbField.lean through `psidriver calib`;
implementation: psiaudio.calibration / psiaudio.util in-process.  Each real method is compared
with the model to a *transcription* tolerance (relative 1e-12; not a property tolerance), exception
kinds and NaN exactly.  The oracle evaluates the property's laws directly on the implementation
(tolerance 1e-9 dB).
"""
import math

import numpy as np

from .calib_util import FloatSpec, f2b, fl, num, vals, err, quiet, RTOL

DB_TOL = 1e-9      # property tolerance of the oracle, in dB
# absolute transcription tolerance of dB-valued replies (get_sens / get_db / get_attenuation / get_gain): a level that
# cancels (level 0, attenuation -6, sensitivity -6 + 3e-8 -> gain -3.5e-8 dB) has no meaningful *relative* accuracy.
# Measured on the unchanged library (recon/h-calib/m07b.py, 4 seeds x 706 cases): worst |model - code| = 5.7e-14 dB
# (round-off of the interpolation at table magnitudes of ~100 dB); 1e-11 dB is 100 x below the property tolerance.
DB_ATOL = 1e-11


# ------------------------------------------------------------------ construction
def _rows(rows):
    return ','.join(':'.join(f2b(v) for v in r) for r in rows)


def ctor_line(k):
    c = k['c']
    if c == 'flat':
        return f"cal flat {f2b(k['S'])} {f2b(k['G'])}"
    if c in ('from_spl', 'from_db'):
        return f"cal {c} {f2b(k['L'])} {f2b(k['v'])} {f2b(k['G'])}"
    if c == 'from_pascals':
        return f"cal from_pascals {f2b(k['m'])} {f2b(k['v'])} {f2b(k['G'])}"
    if c == 'from_mv_pa':
        return f"cal from_mv_pa {f2b(k['m'])}"
    if c == 'unity':
        return 'cal unity'
    if c == 'as_attenuation':
        return f"cal as_attenuation {f2b(k['v'])}"
    if c in ('interp', 'point'):
        return f"cal {c} {f2b(k['G'])} {_rows(sorted(k['tbl']))}"
    if c in ('interp_from_db', 'interp_from_spl', 'point_from_db', 'point_from_spl'):
        return f"cal {c.replace('_spl', '_db')} {f2b(k['G'])} {_rows(sorted(k['rows']))}"
    if c in ('interp_from_pascals', 'point_from_pascals'):
        return f"cal {c} {f2b(k['G'])} {_rows(sorted(k['rows']))}"
    raise ValueError(c)


# ---- the same value, written down differently by the caller (hardening item 1) ----------------
def _isint(x):
    return float(x).is_integer() and abs(x) < 2 ** 53


def _f32ok(x):
    return float(np.float32(x)) == float(x)


def rep_scalar(x, r):
    """x as a Python float (default), Python int, NumPy float64 / int64 / float32 scalar or 0-d array; a
    representation that cannot hold the value exactly falls back to the Python float"""
    if r == 'int' and _isint(x):
        return int(x)
    if r == 'npint' and _isint(x):
        return np.int64(int(x))
    if r == 'np64':
        return np.float64(x)
    if r == 'np32' and _f32ok(x):
        return np.float32(x)
    if r == '0d':
        return np.array(x, dtype=float)
    return float(x)


def rep_array(xs, r):
    """xs as a float64 ndarray (default), list, tuple, integer / float32 ndarray (when exact), 2-D array,
    strided view, read-only array or pandas Series"""
    xs = [float(v) for v in xs]
    if r == 'list':
        return list(xs)
    if r == 'intlist' and all(_isint(v) for v in xs):
        return [int(v) for v in xs]
    if r == 'tuple':
        return tuple(xs)
    if r == 'intarr' and xs and all(_isint(v) for v in xs):
        return np.array([int(v) for v in xs], dtype=np.int64)
    if r == 'f32' and xs and all(_f32ok(v) for v in xs):
        return np.array(xs, dtype=np.float32)
    if r == '2d' and len(xs) >= 2 and len(xs) % 2 == 0:
        return np.array(xs, dtype=float).reshape(2, -1)
    if r == 'strided' and xs:
        a = np.zeros(2 * len(xs))
        a[::2] = xs
        return a[::2]
    if r == 'readonly':
        a = np.array(xs, dtype=float)
        a.setflags(write=False)
        return a
    if r == 'series':
        import pandas as pd
        return pd.Series(xs, dtype=float)
    return np.array(xs, dtype=float)


def scribble(a):
    """the caller re-uses its own container after handing it over"""
    import pandas as pd
    if isinstance(a, np.ndarray):
        if a.flags.writeable and a.size:
            a[...] = -1
    elif isinstance(a, pd.Series):
        if len(a):
            a.iloc[:] = -1
    elif isinstance(a, list):
        a[:] = [-1.0] * len(a)


def mkcal(k):
    from psiaudio import calibration as PC
    c = k['c']
    G = rep_scalar(k.get('G', 0.0), k.get('Grepr'))
    nr = k.get('nrepr')              # representation of the scalar level / vrms / magnitude arguments
    pos = k.get('positional')        # vrms handed over positionally
    # hardening item 9: an optional argument that carries its documented default (vrms=1, fixed_gain=0) is left out
    # in some cases -- the device described is the same, so every law below must hold unchanged
    gkw = {} if (k.get('omit_G') and k.get('G', 0.0) == 0) else {'fixed_gain': G}
    omit_v = bool(k.get('omit_v')) and k.get('v') == 1
    if c == 'flat':
        if pos and gkw:
            return PC.FlatCalibration(rep_scalar(k['S'], nr), G)
        return PC.FlatCalibration(rep_scalar(k['S'], nr), **gkw)
    if c in ('from_spl', 'from_db', 'from_pascals'):
        x = rep_scalar(k['m'] if c == 'from_pascals' else k['L'], nr)
        v = rep_scalar(k['v'], nr)
        meth = getattr(PC.FlatCalibration, c)
        if omit_v:
            return meth(x, **gkw)
        return meth(x, v, **gkw) if pos else meth(x, vrms=v, **gkw)
    if c == 'from_mv_pa':
        return PC.FlatCalibration.from_mv_pa(rep_scalar(k['m'], nr))
    if c == 'unity':
        return PC.FlatCalibration.unity()
    if c == 'as_attenuation':
        if omit_v:
            return PC.FlatCalibration.as_attenuation()
        return PC.FlatCalibration.as_attenuation(rep_scalar(k['v'], nr)) if pos else \
            PC.FlatCalibration.as_attenuation(vrms=rep_scalar(k['v'], nr))
    cls = PC.InterpCalibration if c.startswith('interp') else PC.PointCalibration
    kw = {}
    if k.get('reference'):
        kw['reference'] = k['reference']
    if k.get('attrs'):
        kw['attrs'] = {'source': 'measurement', 'n': len(k.get('tbl') or k.get('rows'))}
    if c in ('interp', 'point'):
        f = [r[0] for r in k['tbl']]
        s = [r[1] for r in k['tbl']]
        r = k.get('repr')       # the same numbers, written down differently by the caller
        if r == 'intfirst':
            f = [int(v) if float(v).is_integer() else v for v in f]
            s = [int(v) if float(v).is_integer() else v for v in s]
        elif r == 'scalar' and len(f) == 1 and c == 'point':
            f, s = f[0], s[0]
        elif r is not None:
            # float32 holds the (integer) frequencies exactly; float32 *sensitivities* would make NumPy compute the
            # levels in single precision (a property of the caller's dtype, not of the library): kept float64
            f, s = rep_array(f, r if r != 'f32' or all(_isint(v) for v in f) else None), rep_array(s, r if r != 'f32' else None)
        if k.get('phase') and c == 'interp':
            kw['phase'] = [0.01 * i for i in range(len(k['tbl']))]
        cal = cls(f, s, G, **kw) if (pos and gkw) else cls(f, s, **gkw, **kw)
        if k.get('mutate_inputs'):
            scribble(f)
            scribble(s)
        return cal
    r = k.get('repr') or 'ndarray'
    fr = [r_[0] for r_ in k['rows']]
    f = rep_array(fr, r if r != 'f32' or all(_isint(v) for v in fr) else None)
    x = rep_array([r_[1] for r_ in k['rows']], r if r != 'f32' else None)
    v = rep_array([r_[2] for r_ in k['rows']], r if r != 'f32' else None)
    if k.get('scalar_vrms'):
        v = rep_scalar(k['rows'][0][2], nr)
    meth = c.split('_', 1)[1]          # from_db / from_spl / from_pascals
    if meth != 'from_spl' and kw.get('reference') is None:
        kw.pop('reference', None)
    if meth == 'from_spl':
        kw.pop('reference', None)      # from_spl sets it itself
    if k.get('omit_v') and k.get('scalar_vrms') and k['rows'][0][2] == 1:
        cal = getattr(cls, meth)(f, x, **gkw, **kw)           # vrms left out: documented default 1 Vrms
    else:
        cal = getattr(cls, meth)(f, x, v, **gkw, **kw) if pos else getattr(cls, meth)(f, x, vrms=v, **gkw, **kw)
    if k.get('mutate_inputs'):
        for a in (f, x, v):
            scribble(a)
    return cal


def has_spl(k):
    """constructors that declare the reference 'SPL' give the object a `get_spl` alias of `get_db`"""
    c = k['c']
    return c in ('from_spl', 'from_mv_pa', 'interp_from_spl', 'point_from_spl') or \
        (k.get('reference') == 'SPL' and c in ('interp', 'point', 'interp_from_db', 'point_from_db',
                                                'interp_from_pascals', 'point_from_pascals'))


def is_flat(k):
    return not (k['c'].startswith('interp') or k['c'].startswith('point'))


def table(k):
    """(frequency, expected sensitivity before fixed gain) rows — the *property's* reading of the constructor."""
    c = k['c']
    if c in ('interp', 'point'):
        return sorted((r[0], r[1]) for r in k['tbl'])
    out = []
    for f, x, v in k['rows']:
        if c.endswith('pascals'):
            out.append((f, 20 * math.log10(x / 20e-6) - 20 * math.log10(v)))
        else:
            out.append((f, x - 20 * math.log10(v)))
    return sorted(out)


# ------------------------------------------------------------------ queries
def q_line(q):
    o = q['op']
    if o == 'sens':
        return f"sens {f2b(q['f'])}"
    if o == 'sf':
        return f"sf {f2b(q['f'])} {f2b(q['L'])} {f2b(q['A'])}"
    if o == 'db':
        return f"db {f2b(q['f'])} {f2b(q['v'])}"
    if o == 'att':
        return f"att {f2b(q['f'])} {f2b(q['v'])} {f2b(q['L'])}"
    if o == 'gain':
        return f"gain {f2b(q['f'])} {f2b(q['L'])} {f2b(q['A'])}"
    if o == 'meansf':
        fr = np.arange(q['flb'], q['fub'])
        return f"meansf {f2b(q['flb'])} {f2b(q['L'])} {f2b(q['A'])} {fl(fr)}"
    if o == 'sensv':
        return f"sensv {fl(q['fs'])}"
    if o == 'sfv':
        return f"sfv {f2b(q['L'])} {f2b(q['A'])} {fl(q['fs'])}"
    if o == 'dbv':
        return 'dbv ' + (','.join(f'{f2b(f)}:{f2b(v)}' for f, v in zip(q['fs'], q['vs'])) or '-')
    if o == 'tomvpa':
        return 'tomvpa'
    if o == 'sensitivity':
        return 'sensitivity'
    if o == 'set_fixed_gain':
        return f"set_fixed_gain {f2b(q['G'])}"
    if o == 'twin':
        return None             # another object is built and used: the model's object is not concerned
    if o == 'reuse':
        # the same frequency array handed over twice, overwritten in place in between: two array queries for the model
        m = q['meth']
        if m == 'sens':
            return [f"sensv {fl(q['fs'])}", f"sensv {fl(q['fs2'])}"]
        if m == 'sf':
            return [f"sfv {f2b(q['L'])} {f2b(q['A'])} {fl(q['fs'])}", f"sfv {f2b(q['L'])} {f2b(q['A'])} {fl(q['fs2'])}"]
        if m == 'db':
            return ['dbv ' + ','.join(f'{f2b(f)}:{f2b(v)}' for f, v in zip(fr, q['vs'])) for fr in (q['fs'], q['fs2'])]
        return []               # get_gain / get_attenuation on arrays: no model command, oracle only
    raise ValueError(o)


def scalar_or_vals(x, n=None):
    a = np.asarray(x, dtype=float)
    if a.ndim == 0:
        return num(float(a))
    return vals(a)


def _num(q, key):
    return rep_scalar(q[key], q.get('nr'))


def _freq(q):
    return rep_scalar(q['f'], q.get('fr'))


def _arr_unchanged(args, keeps):
    import pandas as pd
    for a, b in zip(args, keeps):
        if isinstance(a, (np.ndarray, pd.Series, list)) and not np.array_equal(np.asarray(a, dtype=float), b, equal_nan=True):
            return False
    return True


def twin_of(k):
    """a second calibration that differs from `k` in exactly one parameter (built and used while the first one
    is in use: nothing may leak from one object to the other)"""
    k2 = {kk: ([list(r) for r in vv] if kk in ('tbl', 'rows') else vv) for kk, vv in k.items()}
    if 'G' in k2:
        k2['G'] = k2['G'] + 7.0
    elif 'v' in k2:
        k2['v'] = k2['v'] * 2
    elif 'm' in k2:
        k2['m'] = k2['m'] * 2
    else:
        k2 = {'c': 'flat', 'S': 3.0, 'G': 0.0}
    k2.pop('mutate_inputs', None)
    return k2


def _reuse_call(cal, q, k=None):
    """the array method of a `reuse` query, as a function of the caller's frequency (and voltage) buffers"""
    m, L, A = q['meth'], q.get('L', 60.0), q.get('A', 0.0)
    if m == 'sens':
        return lambda f, v: cal.get_sens(f)
    if m == 'sf':
        return lambda f, v: cal.get_sf(f, L, A)
    if m == 'db':
        get_db = cal.get_spl if q.get('spl') and (k is None or has_spl(k)) else cal.get_db
        return lambda f, v: get_db(f, v)
    if m == 'gain':
        return lambda f, v: cal.get_gain(f, L, A)
    if m == 'att':
        return lambda f, v: cal.get_attenuation(f, v, L)
    raise ValueError(m)


def _overwrite(q, fbuf):
    """the caller re-uses its frequency buffer: new contents written in place (shape and dtype unchanged)"""
    if q['how'] == 'scale':
        fbuf *= q['factor']
    else:
        fbuf[:] = q['fs2']
    if fbuf.tolist() != [float(x) for x in q['fs2']]:
        raise AssertionError('harness: buffer contents are not fs2')


def run_reuse(cal, q, k=None):
    """[first answer, answer after the caller overwrote its buffer in place] (model lines: see q_line)"""
    from psiaudio.calibration import CalibrationError
    call = _reuse_call(cal, q, k)
    fbuf, vbuf = np.array(q['fs'], dtype=float), np.array(q['vs'], dtype=float)
    out = []
    for step in (0, 1):
        if step:
            _overwrite(q, fbuf)
        try:
            r = call(fbuf, vbuf)
            out.append(vals(r, atol=DB_ATOL if q['meth'] != 'sf' else 0.0))
        except CalibrationError:
            out.append(err('CalibrationError'))
        except ValueError:
            out.append(err('ValueError'))
    return out if q['meth'] in ('sens', 'sf', 'db') else []


def law_reuse(cal, k, q):
    """hardening item 6 (histories): ONE frequency array handed to the same method of the same object twice, its contents
    overwritten in place by the caller in between (same shape; values may leave the calibrated range) and nothing else
    asked in between: the second answer is the answer for the new contents, frequency by frequency what the scalar form
    says (NaN / CalibrationError included); the array returned first is left alone"""
    call = _reuse_call(cal, q, k)
    name = {'sens': 'get_sens', 'sf': 'get_sf', 'db': 'get_db', 'gain': 'get_gain', 'att': 'get_attenuation'}[q['meth']]
    fbuf, vbuf = np.array(q['fs'], dtype=float), np.array(q['vs'], dtype=float)
    from psiaudio.calibration import CalibrationError
    try:
        obj1 = call(fbuf, vbuf)                 # what the first call handed back, as the caller holds it
        keep1 = np.array(obj1, dtype=float, copy=True)
        r1 = keep1.tolist()
    except (CalibrationError, ValueError) as e:
        obj1, keep1, r1 = None, None, type(e).__name__
    _overwrite(q, fbuf)
    r2 = _try(lambda: call(fbuf, vbuf))
    if obj1 is not None and not np.array_equal(np.asarray(obj1, dtype=float), keep1, equal_nan=True):
        return (f'{name}: the array returned for {q["fs"]!r} changed when the caller overwrote its frequency buffer '
                f'afterwards: {keep1.tolist()!r} -> {np.asarray(obj1, dtype=float).tolist()!r}')
    one = [_try(lambda: call(f, v)) for f, v in zip(q['fs2'], q['vs'])]
    errs = [x for x in one if isinstance(x, str) and x != 'nan']
    what = (f'{name} asked twice with the same frequency array, first holding {q["fs"]!r}, then overwritten in place '
            f'({q["how"]}) with {q["fs2"]!r}')
    if errs:
        if not (isinstance(r2, str) and r2 == errs[0]):
            return f'{what}: the scalar form raises {errs[0]} for the new contents, the second call returned {r2!r}'
        return None
    if isinstance(r2, str) or np.size(r2) != len(one):
        return f'{what}: second call gave {r2!r}, the scalar form on the new contents {one!r}'
    tol = 1e-12 if q['meth'] == 'sf' else None
    for f, a, b in zip(q['fs2'], one, np.asarray(r2, dtype=float).ravel()):
        if a == 'nan':
            if not math.isnan(b):
                return f'{what}: {f!r} Hz is outside the calibrated range (scalar form NaN), the second call gives {float(b)!r}'
        elif not abs(b - a) <= (DB_TOL if tol is None else tol * abs(a)):
            return f'{what}: at {f!r} Hz the second call gives {float(b)!r}, the scalar form {a!r} (first answer was {r1!r})'
    return None


def run_query(cal, q, k=None):
    import pandas as pd
    from psiaudio.calibration import CalibrationError
    o = q['op']
    get_db = cal.get_spl if q.get('spl') else cal.get_db
    try:
        if o == 'sens':
            return num(np.asarray(cal.get_sens(_freq(q)), dtype=float)[()], atol=DB_ATOL)
        if o == 'sf':
            if q.get('kw'):
                return num(np.asarray(cal.get_sf(_freq(q), _num(q, 'L'), attenuation=_num(q, 'A')), dtype=float)[()])
            if q.get('omit') and q['A'] == 0:
                return num(np.asarray(cal.get_sf(_freq(q), _num(q, 'L')), dtype=float)[()])
            return num(np.asarray(cal.get_sf(_freq(q), _num(q, 'L'), _num(q, 'A')), dtype=float)[()])
        if o == 'db':
            return num(np.asarray(get_db(_freq(q), _num(q, 'v')), dtype=float)[()], atol=DB_ATOL)
        if o == 'att':
            return num(np.asarray(cal.get_attenuation(_freq(q), _num(q, 'v'), _num(q, 'L')), dtype=float)[()], atol=DB_ATOL)
        if o == 'gain':
            if q.get('omit') and q['A'] == 0:
                return num(np.asarray(cal.get_gain(_freq(q), _num(q, 'L')), dtype=float)[()], atol=DB_ATOL)
            if q.get('kw'):
                return num(np.asarray(cal.get_gain(_freq(q), _num(q, 'L'), attenuation=_num(q, 'A')), dtype=float)[()], atol=DB_ATOL)
            return num(np.asarray(cal.get_gain(_freq(q), _num(q, 'L'), _num(q, 'A')), dtype=float)[()], atol=DB_ATOL)
        if o == 'meansf':
            n = max(1, q['fub'] - q['flb'])
            flb, fub = q['flb'], q['fub']
            if q.get('mr') == 'float':
                flb, fub = float(flb), float(fub)
            elif q.get('mr') == 'npint':
                flb, fub = np.int64(flb), np.int64(fub)
            if q.get('omit') and q['A'] == 0:
                r = cal.get_mean_sf(flb, fub, _num(q, 'L'))
            elif q.get('kw'):
                r = cal.get_mean_sf(flb, fub, _num(q, 'L'), attenuation=_num(q, 'A'))
            else:
                r = cal.get_mean_sf(flb, fub, _num(q, 'L'), _num(q, 'A'))
            return num(np.asarray(r, dtype=float)[()], rtol=RTOL + 4e-16 * n)
        if o in ('sensv', 'sfv', 'dbv'):
            fa = rep_array(q['fs'], q.get('ar'))
            args, keeps = [fa], [np.array(q['fs'], dtype=float).reshape(np.shape(fa))]
            if o == 'sensv':
                r = cal.get_sens(fa)
            elif o == 'sfv' and q.get('omit') and q['A'] == 0:
                r = cal.get_sf(fa, _num(q, 'L'))
            elif o == 'sfv':
                r = cal.get_sf(fa, _num(q, 'L'), attenuation=_num(q, 'A')) if q.get('kw') else \
                    cal.get_sf(fa, _num(q, 'L'), _num(q, 'A'))
            elif q.get('series'):
                ser = pd.Series(q['vs'], index=q['fs'], dtype=float)
                args, keeps = [ser], [np.array(q['vs'], dtype=float)]
                r = get_db(ser)
                if not (isinstance(r, pd.Series) and r.index.equals(ser.index)):
                    return err('SeriesIndexLost')
                r = r.values
            elif q.get('frame'):
                # rows are repeated measurements, columns are frequencies; every row is converted alike
                df = pd.DataFrame([q['vs'], [2 * v for v in q['vs']], q['vs']], columns=q['fs'], dtype=float)
                args, keeps = [], []
                keepdf = df.copy()
                r = get_db(df)
                if not (isinstance(r, pd.DataFrame) and r.shape == df.shape and df.equals(keepdf)
                        and r.columns.equals(df.columns)):
                    return err('FrameShapeLost')
                rv = np.asarray(r.values, dtype=float)
                if not np.array_equal(rv[0], rv[2], equal_nan=True):
                    return err('FrameRowsDiffer')
                r = rv[0]
            else:
                va = rep_array(q['vs'], q.get('ar') if q.get('ar') not in ('intarr', 'intlist', 'f32') else None)
                args.append(va)
                keeps.append(np.array(q['vs'], dtype=float).reshape(np.shape(va)))
                r = get_db(fa, va)
            out = vals(r, atol=DB_ATOL if o != 'sfv' else 0.0)      # values copied out here
            if not _arr_unchanged(args, keeps):
                return err('ArgumentModified')
            if np.shape(r) != np.shape(fa) and not (q.get('series') or q.get('frame')):
                return err(f'ShapeChanged{np.shape(fa)}to{np.shape(r)}')
            if isinstance(r, np.ndarray) and r.flags.writeable and r.size:
                r[...] = 77                     # the caller overwrites what it got back and carries on
            return out
        if o == 'tomvpa':
            return num(cal.to_mv_pa())
        if o == 'sensitivity':
            return vals(np.atleast_1d(np.asarray(cal.sensitivity, dtype=float)), atol=DB_ATOL)
        if o == 'set_fixed_gain':
            cal.set_fixed_gain(rep_scalar(q['G'], q.get('nr')))
            return ('ok',)
    except CalibrationError as e:
        return err('CalibrationError')
    except ValueError as e:
        return err('ValueError')
    raise ValueError(o)


def sort_sensitivity(k, r):
    """`sensitivity` attribute is in constructor order; the model's table is sorted by frequency."""
    if r[0] != 'vals' or is_flat(k):
        return r
    rows = k.get('tbl') or k.get('rows')
    order = sorted(range(len(rows)), key=lambda i: rows[i][0])
    return ('vals', [r[1][i] for i in order], r[2])


# ------------------------------------------------------------------ the property, on the implementation
def _f(x):
    return float(np.asarray(x, dtype=float)[()])


def _try(fn):
    """value | 'nan' | exception class name"""
    from psiaudio.calibration import CalibrationError
    try:
        v = fn()
    except CalibrationError:
        return 'CalibrationError'
    except ValueError:
        return 'ValueError'
    v = np.asarray(v, dtype=float)
    if v.ndim == 0:
        v = float(v)
        return 'nan' if math.isnan(v) else v
    return v


def db_of(x):
    return 20 * math.log10(x) if x > 0 else float('-inf') if x == 0 else float('nan')


def check_laws(k, queries):
    """None if every law the property states holds at the queried points, else a description."""
    cal = mkcal(k)
    flat = is_flat(k)
    tbl = None if flat else table(k)
    G0 = k.get('G', 0.0)        # the gain the caller described (a constructor called without one has 0 dB: documented default)
    if not flat:
        f = law_table_attributes(cal, k, tbl)
        if f:
            return f

    def in_range(f):
        if flat:
            return True
        if k['c'].startswith('interp'):
            return tbl[0][0] <= f <= tbl[-1][0]
        return any(f == r[0] for r in tbl)

    def expected_sens(f):
        """what the property says the sensitivity is at f (None = outside the calibrated range)"""
        if flat:
            return None      # checked through the constructor laws below
        if not in_range(f):
            return None
        if k['c'].startswith('point'):
            return next(r[1] for r in tbl if r[0] == f) - G0
        for (f0, s0), (f1, s1) in zip(tbl, tbl[1:]):
            if f0 <= f <= f1:
                return s0 + (s1 - s0) * (f - f0) / (f1 - f0) - G0
        return None

    for q in queries:
        o = q['op']
        if o == 'set_fixed_gain':
            cal.set_fixed_gain(rep_scalar(q['G'], q.get('nr')))
            G0 = q['G']
            continue
        if o == 'twin':
            other = mkcal(twin_of(k))
            _try(lambda: other.get_sf(q['f'], 60.0))
            other.set_fixed_gain(-33.0)
            continue
        if o in ('sens', 'sf', 'db', 'att', 'gain'):
            f = q['f']
            L = q.get('L', 60.0)
            A = q.get('A', 0.0)
            v = q.get('v', 0.5)
            inside = in_range(f)
            # the caller's own spelling of the same numbers (int / NumPy scalar / 0-d array; keyword or positional)
            fq = _freq(q)
            Lq, Aq, vq = (rep_scalar(x, q.get('nr')) for x in (L, A, v))
            get_db = cal.get_spl if q.get('spl') and has_spl(k) else cal.get_db
            sens = _try(lambda: cal.get_sens(fq))
            # an attenuation of 0 dB left out (documented default `attenuation=0`) is the same request
            omit = bool(q.get('omit')) and A == 0
            sf = _try(lambda: cal.get_sf(fq, Lq) if omit else cal.get_sf(fq, Lq, attenuation=Aq) if q.get('kw')
                      else cal.get_sf(fq, Lq, Aq))
            dbv = _try(lambda: get_db(fq, vq))
            gain = _try(lambda: cal.get_gain(fq, Lq) if omit else cal.get_gain(fq, Lq, attenuation=Aq) if q.get('kw')
                        else cal.get_gain(fq, Lq, Aq))
            att = _try(lambda: cal.get_attenuation(fq, vq, Lq))
            if not inside:
                # outside the calibrated range: NaN or an error, never a level
                want = 'CalibrationError' if k['c'].startswith('point') else 'nan'
                for name, got in (('get_sens', sens), ('get_sf', sf), ('get_db', dbv), ('get_gain', gain),
                                  ('get_attenuation', att)):
                    if got != want:
                        return f'{name}({f!r}) outside the calibrated range returned {got!r}, expected {want}'
                continue
            for name, got in (('get_sens', sens), ('get_sf', sf)):
                if not isinstance(got, float):
                    return f'{name}({f!r}) inside the calibrated range gave {got!r}'
            es = expected_sens(f)
            if es is not None and abs(sens - es) > DB_TOL:
                return (f'get_sens({f!r}) = {sens!r}, the table (linear in dB between points, exact at points) '
                        f'gives {es!r}')
            # inverse laws
            back = _try(lambda: cal.get_db(f, sf))
            if not (isinstance(back, float) and abs(back - (L + A)) <= DB_TOL):
                return f'get_db({f!r}, get_sf({f!r}, {L!r}, {A!r})) = {back!r}, expected {L + A!r}'
            if v > 0:
                if not isinstance(dbv, float):
                    return f'get_db({f!r}, {v!r}) gave {dbv!r}'
                sfb = _try(lambda: cal.get_sf(f, dbv))
                if not (isinstance(sfb, float) and abs(db_of(sfb) - db_of(v)) <= DB_TOL):
                    return f'get_sf({f!r}, get_db({f!r}, {v!r})) = {sfb!r}, expected {v!r}'
                if not (isinstance(att, float) and abs(att - (dbv - L)) <= DB_TOL):
                    return f'get_attenuation({f!r}, {v!r}, {L!r}) = {att!r}, get_db - level = {dbv - L!r}'
            # additivity: level, attenuation, fixed gain are pure dB offsets
            for d in (q.get('d', 20.0), 20.0):
                a = _try(lambda: cal.get_sf(f, L + d, A))
                b = _try(lambda: cal.get_sf(f, L, A + d))
                for name, got in (('level', a), ('attenuation', b)):
                    if not (isinstance(got, float) and abs(db_of(got) - db_of(sf) - d) <= DB_TOL):
                        return (f'get_sf({f!r}, {L!r}, {A!r}) = {sf!r}; +{d!r} dB of {name} gives {got!r} '
                                f'(ratio {got / sf if isinstance(got, float) and sf else None!r}, '
                                f'expected {10 ** (d / 20)!r})')
                cal.set_fixed_gain(G0 + d)
                c = _try(lambda: cal.get_sf(f, L, A))
                cal.set_fixed_gain(G0)
                if not (isinstance(c, float) and abs(db_of(c) - db_of(sf) - d) <= DB_TOL):
                    return f'fixed gain +{d!r} dB changed get_sf({f!r}, {L!r}) from {sf!r} to {c!r}'
            sfx = _try(lambda: cal.get_sf(f, L, A))          # every argument spelled out
            if not (isinstance(sfx, float) and abs(db_of(sf) - db_of(sfx)) <= DB_TOL):
                return (f'get_sf({f!r}, {L!r}{"" if omit else ", " + repr(A)}) = {sf!r} as the caller spelled it, '
                        f'get_sf({f!r}, {L!r}, {A!r}) = {sfx!r}')
            if not (isinstance(gain, float) and abs(gain - db_of(sfx)) <= DB_TOL):
                return (f'get_gain({f!r}, {L!r}{"" if omit else ", " + repr(A)}) = {gain!r}, '
                        f'db(get_sf({f!r}, {L!r}, {A!r})) = {db_of(sfx)!r}')
        elif o in ('sensv', 'sfv', 'dbv'):
            # array (list, tuple, integer / float32 / 2-D / strided array, Series, DataFrame) = scalar, point by point
            f = law_array(cal, k, q)
            if f:
                return f
        elif o == 'reuse':
            f = law_reuse(cal, k, q)
            if f:
                return f
        elif o == 'meansf':
            flb, fub, L, A = q['flb'], q['fub'], q['L'], q['A']
            fr = np.arange(flb, fub)
            got = _try(lambda: cal.get_mean_sf(flb, fub, L) if (q.get('omit') and A == 0)
                       else cal.get_mean_sf(flb, fub, L, attenuation=A))
            if flat:
                want = _f(cal.get_sf(flb, L, A))
            else:
                ok = len(fr) > 0 and all(in_range(float(x)) for x in fr)
                if not ok:
                    if isinstance(got, float):
                        return (f'get_mean_sf({flb}, {fub}, …) over a range with uncalibrated frequencies '
                                f'returned the level {got!r}')
                    continue
                want = float(np.mean([_f(cal.get_sf(float(x), L, A)) for x in fr]))
            if not (isinstance(got, float) and abs(db_of(got) - db_of(want)) <= DB_TOL):
                return (f'get_mean_sf({flb}, {fub}, {L!r}, attenuation={A!r}) = {got!r}, mean of get_sf with that '
                        f'attenuation = {want!r} (ratio {got / want if isinstance(got, float) else None!r})')
        elif o == 'tomvpa' and k['c'] == 'from_mv_pa':
            got = _try(lambda: cal.to_mv_pa())
            if not (isinstance(got, float) and abs(got - k['m']) <= 1e-9 * abs(k['m'])):
                return f'from_mv_pa({k["m"]!r}).to_mv_pa() = {got!r}'

    # constructor consistency: the device "vrms volts produce this level" is read back at vrms
    c = k['c']
    cal = mkcal(k)
    if c in ('from_spl', 'from_db', 'from_pascals'):
        want = k['L'] if c != 'from_pascals' else 20 * math.log10(k['m'] / 20e-6)
        got = _try(lambda: cal.get_db(1e3, k['v']))
        if not (isinstance(got, float) and abs(got - (want - k['G'])) <= DB_TOL):
            return (f'{c}: {k["v"]!r} Vrms was measured as {want!r} dB, but get_db(1e3, {k["v"]!r}) reads '
                    f'{got!r} (fixed gain {k["G"]!r})')
    if c == 'from_mv_pa':
        got = _try(lambda: cal.get_db(1e3, k['m'] * 1e-3))     # 1 Pa
        want = 20 * math.log10(1 / 20e-6)
        if not (isinstance(got, float) and abs(got - want) <= DB_TOL):
            return f'from_mv_pa({k["m"]!r}): 1 Pa ({k["m"]!r} mV) reads {got!r} dB SPL, expected {want!r}'
        got = _try(lambda: cal.to_mv_pa())
        if not (isinstance(got, float) and abs(got - k['m']) <= 1e-9 * abs(k['m'])):
            return f'from_mv_pa({k["m"]!r}).to_mv_pa() = {got!r}'
    if c == 'unity':
        if _f(cal.get_sf(1e3, 0)) != 1 or _f(cal.get_db(1e3, 1)) != 0:
            return 'unity calibration is not the identity'
    if c == 'as_attenuation':
        got = _try(lambda: cal.get_sf(1e3, 0.0))
        if not (isinstance(got, float) and abs(db_of(got) - db_of(k['v'])) <= DB_TOL):
            return f'as_attenuation({k["v"]!r}): 0 dB attenuation gives {got!r} V'
    if not flat and c not in ('interp', 'point'):
        for f, x, v in k['rows']:
            want = x if not c.endswith('pascals') else 20 * math.log10(x / 20e-6)
            got = _try(lambda: cal.get_db(f, v))
            if not (isinstance(got, float) and abs(got - (want - k['G'])) <= DB_TOL):
                return (f'{c}: at {f!r} Hz {v!r} Vrms was measured as {want!r} dB, but get_db reads {got!r} '
                        f'(fixed gain {k["G"]!r})')
    return None


def law_table_attributes(cal, k, tbl):
    """"reproduce the table at its points", read from the object itself: the table a frequency-dependent calibration
    reports (`frequency` / `sensitivity` attributes, any order) is the table it was built from.  Not asked when the
    caller overwrote its own arrays afterwards (InterpCalibration's attributes are the caller's arrays)."""
    if k.get('mutate_inputs') and k['c'].startswith('interp'):
        return None
    try:
        fa = np.atleast_1d(np.asarray(cal.frequency, dtype=float)).ravel()
        sa = np.atleast_1d(np.asarray(cal.sensitivity, dtype=float)).ravel()
    except AttributeError as e:
        return f'{k["c"]}: the calibration object does not report the table it was built from ({e})'
    got = sorted(zip(fa.tolist(), sa.tolist()))
    if len(got) != len(tbl) or any(a[0] != b[0] or not abs(a[1] - b[1]) <= DB_TOL for a, b in zip(got, tbl)):
        return f'{k["c"]}: the object reports the table {got[:4]!r}..., it was built from {list(tbl[:4])!r}...'
    return None


def law_array(cal, k, q):
    """the array forms answer, position by position, what the scalar form answers (NaN / error included)"""
    import pandas as pd
    o, fs = q['op'], q['fs']
    L, A = q.get('L', 60.0), q.get('A', 0.0)
    get_db = cal.get_spl if q.get('spl') and has_spl(k) else cal.get_db
    if o == 'sensv':
        one = [_try(lambda: cal.get_sens(f)) for f in fs]
        got = _try(lambda: cal.get_sens(rep_array(fs, q.get('ar'))))
    elif o == 'sfv':
        one = [_try(lambda: cal.get_sf(f, L, A)) for f in fs]
        got = _try(lambda: cal.get_sf(rep_array(fs, q.get('ar')), L) if (q.get('omit') and A == 0)
                   else cal.get_sf(rep_array(fs, q.get('ar')), L, A))
    else:
        one = [_try(lambda: cal.get_db(f, v)) for f, v in zip(fs, q['vs'])]
        if q.get('series'):
            got = _try(lambda: get_db(pd.Series(q['vs'], index=fs, dtype=float)).values)
        elif q.get('frame'):
            got = _try(lambda: get_db(pd.DataFrame([q['vs']], columns=fs, dtype=float)).values[0])
        else:
            ar = q.get('ar')
            got = _try(lambda: get_db(rep_array(fs, ar), rep_array(q['vs'], ar if ar not in ('intarr', 'intlist', 'f32') else None)))
    errs = [x for x in one if isinstance(x, str) and x != 'nan']
    if errs:
        if not (isinstance(got, str) and got == errs[0]):
            return (f'{o} on {fs!r}: the scalar form raises {errs[0]} for one of the frequencies, the array form '
                    f'returned {got!r}')
        return None
    if not fs:
        return None             # nothing to answer (an empty result or a loud error are both fine)
    if isinstance(got, str) or np.size(got) != len(fs):
        return f'{o} on {fs!r} ({q.get("ar") or "ndarray"}): array form gave {got!r}, scalar form {one!r}'
    got = np.asarray(got, dtype=float).ravel()
    for f, a, b in zip(fs, one, got):
        if a == 'nan':
            if not math.isnan(b):
                return f'{o}: {f!r} Hz is outside the calibrated range (scalar form NaN) but the array form gives {b!r}'
        elif not (abs(b - a) <= (DB_TOL if o != 'sfv' else 1e-12 * abs(a))):   # measured: 1 ulp (2.2e-16), 3000 tables x 3 classes
            return f'{o}: at {f!r} Hz the array form ({q.get("ar") or "ndarray"}) gives {b!r}, the scalar form {a!r}'
    return None


# ------------------------------------------------------------------ generation
def rnd(rng, lo, hi, nice=None):
    x = rng.uniform(lo, hi)
    if nice is None:
        nice = rng.random() < 0.5
    return float(f'{x:.3g}') if nice else x      # 'nice' = three significant digits (never rounds a positive value to 0)


def gen_table(rng, n, consecutive=False):
    if consecutive:
        f0 = rng.randint(50, 5000)
        fs = [float(f0 + i) for i in range(n)]
    else:
        fs = set()
        while len(fs) < n:
            fs.add(float(rng.choice([rng.randint(20, 20000), round(rng.uniform(20, 20000), 1)])))
        fs = sorted(fs)
    return fs


TABLE_REPRS = [None, None, 'intfirst', 'tuple', 'ndarray', 'list', 'intlist', 'intarr', 'f32', 'series', 'strided',
               'readonly']
NUM_REPRS = [None, None, None, 'int', 'np64', 'npint']


def order_rows(rng, n):
    """tables as written down by the caller: ascending, descending, or in the order the points were measured"""
    order = list(range(n))
    r = rng.random()
    if r < 0.25:
        order.reverse()
    elif r < 0.6:
        rng.shuffle(order)
    return order


def gen_ctor(rng, kind):
    G = rng.choice([0.0, 0.0, rnd(rng, -60, 60), float(rng.randint(-60, 60))])
    extra = {'Grepr': rng.choice(NUM_REPRS), 'nrepr': rng.choice(NUM_REPRS), 'positional': rng.random() < 0.3,
             'omit_v': rng.random() < 0.6, 'omit_G': rng.random() < 0.6}     # (effective when vrms == 1 / gain == 0)
    if kind == 'flat':
        c = rng.choice(['flat', 'from_spl', 'from_db', 'from_pascals', 'from_mv_pa', 'unity', 'as_attenuation'])
        v = rng.choice([1.0, 1.0, 0.1, 2.0, rnd(rng, 1e-3, 10)])
        if c == 'flat':
            return dict(extra, c=c, S=rng.choice([rnd(rng, -60, 160), float(rng.randint(-60, 160))]), G=G)
        if c in ('from_spl', 'from_db'):
            return dict(extra, c=c, L=rng.choice([rnd(rng, 20, 130), float(rng.randint(20, 130))]), v=v, G=G)
        if c == 'from_pascals':
            m = rng.choice([rnd(rng, 1e-3, 50), 20e-6 * 10 ** (rng.choice([80, 94, 100, 110]) / 20), 1.0, 2.0])
            return dict(extra, c=c, m=m, v=v, G=G)
        if c == 'from_mv_pa':
            return dict(extra, c=c, m=rng.choice([1.0, 2.5, 50.0, rnd(rng, 0.1, 100)]))
        if c == 'unity':
            return {'c': c}
        return dict(extra, c=c, v=v)
    n = rng.randint(2, 8)
    if kind == 'point' and rng.random() < 0.12:
        n = 1
    fs = gen_table(rng, n, consecutive=(kind == 'point' and rng.random() < 0.4))
    c = rng.choice([kind, kind, kind + '_from_db', kind + '_from_spl', kind + '_from_pascals'])
    order = order_rows(rng, n)
    extra.update(repr=rng.choice(TABLE_REPRS), attrs=rng.random() < 0.2, mutate_inputs=rng.random() < 0.4)
    if rng.random() < 0.3 and not c.endswith('_spl'):
        extra['reference'] = 'SPL'
    integer = rng.random() < 0.3            # tables a caller would type in as whole numbers
    if integer:
        fs = sorted({float(round(f)) for f in fs})
        while len(fs) < n:
            fs = sorted(set(fs) | {float(rng.randint(20, 20000))})
    if extra['repr'] == 'f32' and kind == 'point':
        # a float32 frequency table makes NumPy compare in single precision (the Python-float elements np.vectorize
        # hands to np.equal are "weak"): 763.000001 then *is* the table's 763.0 -- the caller's dtype, not the library
        extra['repr'] = 'ndarray'
    if c == kind:
        if n == 1 and rng.random() < 0.5:
            extra['repr'] = 'scalar'
        tbl = [[fs[i], float(rng.randint(-40, 140)) if integer else rnd(rng, -40, 140)] for i in order]
        return dict(extra, c=c, G=G, tbl=tbl, phase=(kind == 'interp' and rng.random() < 0.3))
    if extra['repr'] in ('intfirst', 'scalar'):
        extra['repr'] = None
    if extra['repr'] == 'f32' and kind == 'point':
        extra['repr'] = 'ndarray'
    scalar_v = rng.random() < 0.5
    v0 = rng.choice([1.0, 1.0, 0.1, 2.0, rnd(rng, 1e-3, 10)])
    rows = []
    for i in order:
        x = rnd(rng, 1e-3, 50) if c.endswith('pascals') else (float(rng.randint(20, 130)) if integer else rnd(rng, 20, 130))
        rows.append([fs[i], x, v0 if scalar_v else rng.choice([1.0, 2.0, rnd(rng, 1e-3, 10)])])
    return dict(extra, c=c, G=G, rows=rows, scalar_vrms=scalar_v)


def gen_big(rng, kind):
    """far beyond the usual sizes: a table of a few thousand rows in measurement order, queried with tens of
    thousands of frequencies and averaged over a band of 20 kHz"""
    n = rng.randint(1500, 3000)
    f0 = rng.randint(20, 200)
    fs = [float(f0 + 7 * i) for i in range(n)] if kind == 'interp' else [float(f0 + i) for i in range(n)]
    order = order_rows(rng, n)
    k = {'c': kind, 'G': rnd(rng, -20, 20), 'tbl': [[fs[i], rnd(rng, 60, 120)] for i in order],
         'repr': rng.choice(['ndarray', 'list', 'series'])}
    lo, hi = fs[0], fs[-1]
    nq = 20000 if kind == 'interp' else 4000
    if kind == 'interp':
        ff = [rng.uniform(lo - 50, hi + 50) for _ in range(nq)]
    else:
        ff = [float(rng.randint(int(lo), int(hi))) for _ in range(nq)]
    qs = [{'op': 'sfv', 'fs': ff, 'L': 60.0, 'A': 10.0, 'ar': rng.choice([None, 'list'])},
          {'op': 'sensv', 'fs': ff[:3000], 'ar': '2d'},
          {'op': 'meansf', 'flb': int(lo) + 1, 'fub': int(hi) - 1, 'L': 70.0, 'A': 0.0},
          {'op': 'sf', 'f': fs[n // 2], 'L': 80.0, 'A': 0.0, 'v': 1.0, 'd': 20.0},
          {'op': 'sens', 'f': hi + 1.0, 'L': 80.0, 'A': 0.0, 'v': 1.0, 'd': 20.0}]
    return {'kind': k['c'] + '/big', 'ctor': k, 'queries': qs}


def freqs_of(k):
    if is_flat(k):
        return None
    return sorted(r[0] for r in (k.get('tbl') or k.get('rows')))


def pick_freq(rng, k):
    """on a point, between points, just outside, far outside, or anywhere (flat)"""
    fs = freqs_of(k)
    if fs is None:
        return rng.choice([1e3, 0.0, rnd(rng, 1, 40000)])
    r = rng.random()
    if r < 0.35:
        return rng.choice(fs)
    if r < 0.7 and len(fs) == 1:
        return rng.choice([fs[0] + 1, fs[0] - 1, fs[0] * (1 + 1e-12)])
    if r < 0.7:
        i = rng.randrange(len(fs) - 1)
        t = rng.choice([0.5, rng.random(), 1e-9, 1 - 1e-9])
        return fs[i] + (fs[i + 1] - fs[i]) * t
    if r < 0.85:
        return rng.choice([fs[0] - 1e-6, fs[-1] + 1e-6, math.nextafter(fs[0], 0), math.nextafter(fs[-1], 1e9)])
    return rng.choice([0.0, fs[0] / 2, fs[-1] * 2, 1e6])


FREQ_REPRS = [None, None, None, 'int', 'np64', 'np32', 'npint', '0d']
ARR_REPRS = [None, None, 'list', 'intlist', 'tuple', 'intarr', 'f32', '2d', 'strided', 'readonly', 'series']


def gen_queries(rng, k, nq):
    qs = []
    fs = freqs_of(k)
    spl = has_spl(k)
    G0 = k.get('G', 0.0)
    while len(qs) < nq:
        o = rng.choice(['sens', 'sf', 'sf', 'db', 'db', 'att', 'gain', 'meansf', 'sensv', 'sfv', 'dbv',
                        'set_fixed_gain', 'sensitivity', 'twin', 'again', 'regain', 'reuse']
                       + (['tomvpa'] * 2 if is_flat(k) else []))
        L = rng.choice([rnd(rng, -20, 120), float(rng.randint(-20, 120)), 0.0])
        A = rng.choice([0.0, 0.0, 20.0, rnd(rng, 0, 120), float(rng.randint(-40, 120)), -6.0])
        v = rng.choice([1.0, rnd(rng, 1e-6, 10), rnd(rng, 1e-6, 10), 10 ** rng.uniform(-6, 1), float(rng.randint(1, 10))])
        if rng.random() < 0.04:
            v = rng.choice([0.0, -1.0])          # malformed: not a voltage
        d = rng.choice([20.0, 6.0, rnd(rng, -40, 40)])
        how = {'fr': rng.choice(FREQ_REPRS), 'nr': rng.choice(NUM_REPRS), 'kw': rng.random() < 0.4,
               'omit': rng.random() < 0.5, 'spl': spl and rng.random() < 0.4}
        if o in ('sens', 'sf', 'db', 'att', 'gain'):
            qs.append(dict(how, op=o, f=pick_freq(rng, k), L=L, A=A, v=v, d=d))
        elif o == 'meansf':
            if fs is None:
                flb = rng.randint(0, 2000)
                fub = flb + rng.randint(-2, 300)
            else:
                lo, hi = math.ceil(fs[0]), math.floor(fs[-1])
                r = rng.random()
                if r < 0.6 and hi > lo:
                    flb = rng.randint(lo, hi)
                    fub = min(hi + 1, flb + rng.randint(1, 300))
                elif r < 0.8:
                    flb = lo - rng.randint(0, 3)
                    fub = min(hi, lo + 40) + rng.randint(0, 3)
                else:
                    flb = rng.randint(lo, max(lo, hi))
                    fub = flb - rng.randint(0, 2)
            qs.append({'op': o, 'flb': int(flb), 'fub': int(fub), 'L': L, 'A': A, 'nr': how['nr'], 'kw': how['kw'],
                       'omit': how['omit'], 'mr': rng.choice([None, 'float', 'npint'])})
        elif o in ('sensv', 'sfv', 'dbv'):
            n = rng.randint(0, 6) if not k['c'].startswith('point') else rng.randint(1, 6)
            ff = [pick_freq(rng, k) for _ in range(n)]
            if k['c'].startswith('point') and rng.random() < 0.6:
                ff = [rng.choice(fs) for _ in range(n)]
            q = {'op': o, 'fs': ff, 'L': L, 'A': A, 'ar': rng.choice(ARR_REPRS), 'nr': how['nr'], 'kw': how['kw'],
                 'omit': how['omit']}
            if q['ar'] == 'series' and not k['c'].startswith('point') and n == 0:
                q['ar'] = None
            if o == 'dbv':
                q['vs'] = [rnd(rng, 1e-6, 10) for _ in ff]
                q['spl'] = how['spl']
                r = rng.random()
                if r < 0.3 and len(set(ff)) == len(ff) and n > 0:
                    q['series'] = True
                elif r < 0.5 and len(set(ff)) == len(ff) and n > 0:
                    q['frame'] = True
            qs.append(q)
        elif o == 'reuse':
            # one frequency buffer, two calls of one method, the buffer overwritten in place in between
            n = rng.randint(1, 6)
            ff = [pick_freq(rng, k) for _ in range(n)]
            if k['c'].startswith('point') and rng.random() < 0.8:
                ff = [rng.choice(fs) for _ in range(n)]
            q = {'op': o, 'meth': rng.choice(['sens', 'sens', 'sf', 'db', 'gain', 'att']), 'fs': ff, 'L': L, 'A': A,
                 'vs': [rnd(rng, 1e-6, 10) for _ in ff], 'spl': how['spl']}
            if rng.random() < 0.5:
                q.update(how='scale', factor=rng.choice([2.0, 0.5, 1.25]))      # (exact in binary)
                q['fs2'] = [f * q['factor'] for f in ff]
            else:
                q['how'] = 'assign'
                q['fs2'] = [rng.choice(fs) if (fs and rng.random() < 0.6) else pick_freq(rng, k) for _ in range(n)]
            qs.append(q)
        elif o == 'set_fixed_gain':
            qs.append({'op': o, 'G': rng.choice([0.0, 20.0, -40.0, rnd(rng, -60, 60)]), 'nr': how['nr']})
        elif o == 'twin':
            qs.append({'op': o, 'f': pick_freq(rng, k)})
        elif o == 'again':
            # the very same question once more (possibly after other questions and gain changes in between)
            prev = [q for q in qs if q['op'] not in ('set_fixed_gain', 'twin')]
            if prev:
                qs.append(dict(rng.choice(prev)))
        elif o == 'regain':
            # the gain is changed after the object was used, and later set back
            q1 = dict(how, op=rng.choice(['sf', 'db', 'sens']), f=pick_freq(rng, k), L=L, A=A, v=v, d=d)
            cur = ([q['G'] for q in qs if q['op'] == 'set_fixed_gain'] or [G0])[-1]
            qs += [q1, {'op': 'set_fixed_gain', 'G': rng.choice([20.0, rnd(rng, -60, 60)])}, dict(q1),
                   {'op': 'set_fixed_gain', 'G': cur}, dict(q1)]
        elif o == 'sensitivity' and k['c'] == 'interp' and k.get('mutate_inputs'):
            # InterpCalibration keeps the caller's own array as its `sensitivity` *attribute* (np.asarray) while the
            # interpolator works on a copy: the attribute follows the caller's later writes, the conversions do not.
            # The property speaks about the conversions; the attribute is not asked here.
            continue
        else:
            qs.append({'op': o})
    return qs


class C07(FloatSpec):
    PROP = 'C07'
    PROOF_MODULES = ['PsiProofs.C07']
    DESIGN_REF = 'DESIGN.md §6 C07'
    PARALLEL = 16
    TRUST = [
        'proof is over the real numbers: floating-point round-off of the dB formulas is NOT bounded by a theorem; '
        'the Float instance of the same definitions is compared with the real methods to relative 1e-12 on every run',
        'modelled, not verified: scipy interp1d(kind=linear, bounds_error=False) = piecewise-linear interpolation over '
        'the frequency-sorted table with NaN outside; np.vectorize / broadcasting = pointwise; np.arange; np.mean',
        'InterpCalibration is modelled for the default fill_value=nan and tables of >= 2 distinct frequencies; '
        'phase interpolation, make_eq_filter and the pandas DataFrame form of get_db are not modelled',
    ]
    ASSUMPTIONS = ['tables have distinct frequencies', 'voltages are positive in the inverse law v -> dB -> v']
    RULE = ('seeded random calibrations of every class and constructor (flat, from_spl, from_db, from_pascals, '
            'from_mv_pa, unity, as_attenuation; interp/point direct and from_db/from_spl/from_pascals with scalar or '
            'per-row vrms, shuffled tables), each with 8-14 queries (get_sens/get_sf/get_db/get_attenuation/get_gain, '
            'get_mean_sf, array and Series forms, set_fixed_gain, to_mv_pa) at frequencies on / between / just outside / '
            'far outside the table; levels -20..120, attenuations 0..120. A case is non-trivial when at least one query '
            'returns a number and the calibration is not the unity one; distinct = distinct case hash. Hardening: tables '
            'ascending / descending / in measurement order, held as list, tuple, (int64, float32, strided, read-only) '
            'ndarray or Series and optionally overwritten by the caller afterwards; numbers spelled as Python / NumPy ints '
            'and floats, 0-d arrays; positional and keyword arguments; array queries in the same containers (law: array '
            'form = scalar form point by point), DataFrame form, get_spl alias; a twin object differing in one parameter; '
            'the same query repeated; gain changed after first use and set back; two tables of 1500-3000 rows with '
            '4000-20000 query frequencies per run. Targeted pass: vrms / fixed_gain / attenuation left out of the call when they '
            'carry the documented default (1 Vrms, 0 dB); the table the object reports (frequency / sensitivity attributes); one '
            'frequency array asked twice by the same method, overwritten in place in between (op reuse).')

    def gen(self, rng, tier):
        n = 700 if tier == 'quick' else 14000
        for i in range(n):
            kind = ('flat', 'interp', 'point')[i % 3]
            k = gen_ctor(rng, kind)
            yield {'kind': k['c'], 'ctor': k, 'queries': gen_queries(rng, k, rng.randint(8, 14))}
        for kind in (('interp', 'point') if tier == 'quick' else ('interp', 'point') * 4):
            yield gen_big(rng, kind)

    def model_lines(self, c):
        out = [ctor_line(c['ctor'])]
        for q in c['queries']:
            l = q_line(q)
            if isinstance(l, list):
                out.extend(l)
            elif l is not None:
                out.append(l)
        return out

    def impl_results(self, c):
        k = c['ctor']
        try:
            cal = mkcal(k)
        except ValueError:
            return [err('ValueError')] + [err('NoCalibration')] * (len(self.model_lines(c)) - 1)
        out = [('ok',)]
        for q in c['queries']:
            if q['op'] == 'twin':
                other = mkcal(twin_of(k))
                run_query(other, {'op': 'sf', 'f': q['f'], 'L': 60.0, 'A': 0.0})
                other.set_fixed_gain(-33.0)
                continue
            if q['op'] == 'reuse':
                out.extend(run_reuse(cal, q, k))
                continue
            r = run_query(cal, q, k)
            if q['op'] == 'sensitivity':
                r = sort_sensitivity(k, r)
            out.append(r)
        return out

    def oracle(self, c, impl_out):
        with quiet():
            return check_laws(c['ctor'], c['queries'])

    def nontrivial(self, c, out):
        return c['ctor']['c'] != 'unity' and any(l.startswith('num') or l.startswith('vals ') for l in out)

    def neighbours(self, c, rng):
        for _ in range(40):
            yield {'kind': c['kind'], 'ctor': c['ctor'], 'queries': gen_queries(rng, c['ctor'], 10)}

    def shrink_candidates(self, c):
        qs = c['queries']
        for i in range(len(qs)):
            yield {'kind': c['kind'], 'ctor': c['ctor'], 'queries': qs[:i] + qs[i + 1:]}
        k = c['ctor']
        for key in ('tbl', 'rows'):
            if key in k and len(k[key]) > 2:
                for i in range(len(k[key])):
                    k2 = dict(k)
                    k2[key] = k[key][:i] + k[key][i + 1:]
                    yield {'kind': c['kind'], 'ctor': k2, 'queries': qs}
        if k.get('G'):
            k2 = dict(k)
            k2['G'] = 0.0
            yield {'kind': c['kind'], 'ctor': k2, 'queries': qs}

    def describe(self, c):
        return f"{c['ctor']}  queries={c['queries']}"[:600]


SPEC = C07()
