#!/bin/sh
# seedregress_par.sh [P] [ids...]: like seedregress.sh, but the seeds of different properties run concurrently
# (P properties at a time; seeds of one property stay sequential because they share that property's evidence file).
cd /verif || exit 2
P=${1:-4}; [ $# -gt 0 ] && shift
ids="$*"
[ -z "$ids" ] && ids=$(ls seeded | grep -v README | cut -d- -f1 | sort -u)
for id in $ids; do echo $id; done | xargs -P $P -n 1 sh harness/seedregress_one.sh
