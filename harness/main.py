"""Entry point: python -m harness.main <ID> [--tier quick|thorough] [--replay path]"""
import argparse
import importlib
import os
import sys

from . import common as C
from . import framework


def main():
    ap = argparse.ArgumentParser()
    ap.add_argument('prop')
    ap.add_argument('--tier', default=os.environ.get('VERIF_TIER', 'quick'), choices=['quick', 'thorough'])
    ap.add_argument('--replay')
    a = ap.parse_args()
    mod = importlib.import_module(f'harness.{a.prop.lower()}')
    if hasattr(mod, 'main'):
        return mod.main(a.tier, C.seed_from_env(), a.replay)
    if a.replay:
        return framework.replay(mod.SPEC, a.replay)
    return framework.run_check(mod.SPEC, a.tier, C.seed_from_env())


if __name__ == '__main__':
    try:
        rc = main()
    except SystemExit:
        raise
    except BaseException:
        import traceback
        traceback.print_exc()
        rc = 2
    sys.exit(rc)
