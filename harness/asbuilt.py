"""Regenerates the table of DESIGN.md section 11 from the registry, known_findings.json, seeded/ and evidence/.
python -m harness.asbuilt  (rewrites the block between the ASBUILT markers in DESIGN.md)"""
import glob
import json
import os
import re

V = os.path.dirname(os.path.dirname(os.path.abspath(__file__)))


def main():
    man = json.load(open(f'{V}/MANIFEST.json'))
    claimed = [c['property_id'] for c in man['checks']]
    kf = json.load(open(f'{V}/known_findings.json'))
    rows = []
    for pid in [f'C{i:02d}' for i in range(1, 20)]:
        reg = f'{V}/lean/registry/{pid}.txt'
        thms = [l.split()[1].split('.')[-1] for l in open(reg) if l.strip() and not l.startswith('#')] if os.path.exists(reg) else []
        partial = [t for t in thms if 'partial' in t]
        cex = [t for t in thms if 'counterexample' in t]
        fixed = [f for f in kf['fixed'] if f'property={pid} ' in f]
        found = [f['id'] for f in kf['findings'] if f['property'] == pid]
        seeds = []
        for d in sorted(glob.glob(f'{V}/seeded/{pid}-*')):
            m = json.load(open(f'{d}/meta.json'))
            r = m.get('checks_run', '')
            if r.startswith('caught at once'):
                tag = 'caught'
            elif r.startswith('missed at first'):
                tag = 'caught after strengthening'
            else:
                tag = 'caught' if 'CAUGHT' in r and 'MISSED' not in r else ('caught after strengthening' if 'CAUGHT' in r else 'MISSED')
            seeds.append(f"{os.path.basename(d)}: {tag}")
        ev = {}
        try:
            ev = json.load(open(f'{V}/evidence/{pid}.json'))
        except Exception:
            pass
        cov = ev.get('coverage', {})
        status = 'claimed' if pid in claimed else 'not claimed'
        rows.append(f"| {pid} | {status} | {len(thms)} ({len(partial)} `_partial`, {len(cex)} counterexample) | "
                    f"{len(fixed)} fixed" + (f"; recorded: {', '.join(found)}" if found else '') +
                    f" | {'; '.join(seeds) or '—'} | {cov.get('evaluations', '—')} cases, {ev.get('wall_s', '—')} s |")
    table = ('| id | status | theorems registered | defects | seeded changes | last quick run |\n'
             '|----|--------|---------------------|---------|----------------|----------------|\n' + '\n'.join(rows))
    p = f'{V}/DESIGN.md'
    s = open(p).read()
    block = f'<!-- ASBUILT-BEGIN -->\n{table}\n<!-- ASBUILT-END -->'
    if '<!-- ASBUILT-BEGIN -->' in s:
        s = re.sub(r'<!-- ASBUILT-BEGIN -->.*?<!-- ASBUILT-END -->', lambda m: block, s, flags=re.S)
    else:
        s += '\n' + block + '\n'
    open(p, 'w').write(s)
    print(table)


if __name__ == '__main__':
    main()
