#!/bin/sh
# seedtest.sh <patch.diff> <ID> [<ID>...]: apply a seeded change to /repo, run the quick checks, undo it.
# Prints one line per check: CAUGHT (exit 1 with VIOLATION) / MISSED (exit 0) / ERROR (other).
patch="$1"; shift
cd /verif || exit 2
if ! git -C /repo diff --quiet; then echo "/repo not clean"; exit 2; fi
git -C /repo apply "$patch" || { echo "patch does not apply"; exit 2; }
for id in "$@"; do
  out=$(./check "$id" --tier ${TIER:-quick} 2>&1); rc=$?
  v=$(echo "$out" | grep '^VIOLATION' | head -1)
  case $rc in
    1) echo "CAUGHT $id: $v";;
    0) echo "MISSED $id";;
    *) echo "ERROR $id rc=$rc: $(echo "$out" | tail -2)";;
  esac
done
git -C /repo checkout -- .
