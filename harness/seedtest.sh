#!/bin/sh
# seedtest.sh <patch.diff> <ID> [<ID>...]: apply a seeded change to /repo, run the quick checks, undo it.
# Prints one line per check: CAUGHT (exit 1 with VIOLATION) / MISSED (exit 0) / ERROR (other).
# Evidence files are saved and restored: evidence must describe runs on the unchanged tree only.
patch="$1"; shift
cd /verif || exit 2
if ! git -C /repo diff --quiet; then echo "/repo not clean"; exit 2; fi
git -C /repo apply "$patch" || { echo "patch does not apply"; exit 2; }
for id in "$@"; do
  cp "evidence/$id.json" "/tmp/seedtest_ev_$$_$id.json" 2>/dev/null
  out=$(./check "$id" --tier ${TIER:-quick} 2>&1); rc=$?
  v=$(echo "$out" | grep '^VIOLATION' | head -1)
  case $rc in
    1) echo "CAUGHT $id: $v";;
    0) echo "MISSED $id";;
    *) echo "ERROR $id rc=$rc: $(echo "$out" | tail -2)";;
  esac
  [ -f "/tmp/seedtest_ev_$$_$id.json" ] && mv "/tmp/seedtest_ev_$$_$id.json" "evidence/$id.json"
done
git -C /repo checkout -- .
