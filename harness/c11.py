"""C11 — annotated arrays (PipelineData) keep time base, channel labels and metadata aligned.

Model: lean/PsiModel/PData.lean (driver `pdata`).  The same register program
(`new`, `get`, `fin`, `set`, `concat`) is run on the Lean model and on the real
`psiaudio.pipeline.PipelineData` / `concat`; canonical result lines are diffed.
The oracle states the property element by element on the implementation's results:
every sample of an indexing result must carry the time stamp, channel label and
metadata entry it had in the source array (source coordinates are obtained from plain
NumPy on coordinate grids), label counts must equal the axis lengths, split + concat
must restore the array, altered pieces must be refused, arithmetic keeps annotations.
"""
import copy
import itertools
from fractions import Fraction

import numpy as np

from .framework import Spec

LABELS = ['a', 'b', 'c', 'd', 'e', 'f']
FULL = ['s', None, None, None]


# --------------------------------------------------------------------------
# encoding of index expressions
# --------------------------------------------------------------------------

def enc_item(it):
    k = it[0]
    if k == 'i':
        return f'i{it[1]}'
    if k == 's':
        return 's' + ':'.join('_' if v is None else str(v) for v in it[1:4])
    if k in 'LA':
        return k + ','.join(str(v) for v in it[1])
    if k in 'BM':
        return k + ''.join('1' if v else '0' for v in it[1])
    return k


def enc_index(idx):
    if idx['t'] == 'one':
        return 'one:' + enc_item(idx['items'][0])
    return 'tup:' + ';'.join(enc_item(i) for i in idx['items'])


def py_item(it):
    k = it[0]
    if k == 'i':
        return int(it[1])
    if k == 's':
        return slice(it[1], it[2], it[3])
    if k == 'L':
        return [int(v) for v in it[1]]
    if k == 'B':
        return [bool(v) for v in it[1]]
    if k == 'A':
        return np.array(it[1], dtype=np.int64)
    if k == 'M':
        return np.array([bool(v) for v in it[1]], dtype=bool)
    if k == 'n':
        return np.newaxis
    return Ellipsis


def py_index(idx):
    if idx['t'] == 'one':
        return py_item(idx['items'][0])
    return tuple(py_item(i) for i in idx['items'])


def show_index(idx):
    def s(it):
        k = it[0]
        if k == 'i':
            return str(it[1])
        if k == 's':
            a, b, c = it[1:4]
            r = ('' if a is None else str(a)) + ':' + ('' if b is None else str(b))
            return r + ('' if c is None else ':' + str(c))
        if k == 'L':
            return str(list(it[1]))
        if k == 'B':
            return str([bool(v) for v in it[1]])
        if k == 'A':
            return f'np.array({list(it[1])}, dtype=int)'
        if k == 'M':
            return f'np.array({[bool(v) for v in it[1]]}, dtype=bool)'
        return 'np.newaxis' if k == 'n' else '...'
    body = ', '.join(s(i) for i in idx['items'])
    return f'[{body}]' if idx['t'] == 'one' or len(idx['items']) != 1 else f'[{body},]'


def is_fancy(it):
    return it[0] in 'LBAM'


def ref_axis_items(items, nd):
    """Entry applied to each source axis (reference expansion of Ellipsis), or None."""
    cons = [it for it in items if it[0] not in 'ne']
    if len(cons) > nd or sum(1 for it in items if it[0] == 'e') > 1:
        return None
    fill = [FULL] * (nd - len(cons))
    out, seen = [], False
    for it in items:
        if it[0] == 'e':
            out.extend(fill)
            seen = True
        else:
            out.append(it)
    if not seen:
        out.extend(fill)
    return [it for it in out if it[0] != 'n']


def canonical_after(nd, idx):
    """Conservative: is the result again an (epoch, channel, time)-suffix array the chain may go on with?"""
    items = idx['items']
    per = ref_axis_items(items, nd)
    if per is None or not per or per[-1][0] != 's':
        return False
    if sum(1 for it in items if is_fancy(it)) > 1:
        return False
    nnew = sum(1 for it in items if it[0] == 'n')
    if nnew:
        # only leading new axes
        if any(it[0] == 'n' for it in items[nnew:]) or nd + nnew > 3:
            return False
        if any(it[0] == 'i' for it in items):
            return False
    # integers only on a prefix of the axes
    kinds = [it[0] for it in per]
    ni = sum(1 for k in kinds if k == 'i')
    if any(k != 'i' for k in kinds[:ni]):
        return False
    return True


# --------------------------------------------------------------------------
# canonical lines
# --------------------------------------------------------------------------

def enc_ch(ch):
    lab = lambda x: '~' if x is None else str(x)
    if isinstance(ch, list):
        return 'l:' + (','.join(lab(x) for x in ch) if ch else '-')
    return 's:' + lab(ch)


def enc_md(md):
    if isinstance(md, list):
        return 'l:' + (','.join(str(x) for x in md) if md else '-')
    return 's:' + str(md)


def md_id(m):
    if isinstance(m, dict) and set(m) == {'i'}:
        return int(m['i'])
    return repr(m).replace(' ', '')


def frac(fr):
    return f'{fr.numerator}/{fr.denominator}'


def ilist(l):
    return ','.join(str(int(v)) for v in l) if len(l) else '-'


def canon_pd(a, data=True):
    """Canonical line of a real PipelineData."""
    fs = Fraction(float(a.fs))
    ts = []
    for tj in np.asarray(a.t).tolist():
        m = round(Fraction(tj) * fs)
        r = Fraction(m) / fs
        ts.append(frac(r) if float(r) == tj else repr(tj))
    ch = a.channel
    if isinstance(ch, (list, tuple)):
        ch = [None if c is None else str(c) for c in ch]
    elif ch is not None:
        ch = str(ch)
    md = a.metadata
    md = [md_id(m) for m in md] if isinstance(md, list) else md_id(md)
    nep = a.n_epochs
    d = ilist(np.asarray(a).ravel().tolist()) if data else '*'
    return (f"arr shape={ilist(a.shape)} s0={int(a.s0)} fs={frac(fs)} ch={enc_ch(ch)} md={enc_md(md)} "
            f"nch={int(a.n_channels)} nep={'-' if nep is None else int(nep)} t={','.join(ts) if ts else '-'} data={d}")


def parse_line(line):
    """arr line -> dict (oracle side)."""
    if not line.startswith('arr '):
        return None
    f = dict(p.split('=', 1) for p in line[4:].split(' '))
    nums = lambda s: [] if s == '-' else [int(v) for v in s.split(',')]
    lab = lambda s: None if s == '~' else s

    def ch(s):
        if s.startswith('l:'):
            return [] if s[2:] == '-' else [lab(x) for x in s[2:].split(',')]
        return lab(s[2:])

    def md(s):
        if s.startswith('l:'):
            return [] if s[2:] == '-' else [x for x in s[2:].split(',')]
        return s[2:]
    return {'shape': nums(f['shape']), 's0': int(f['s0']), 'fs': Fraction(f['fs']), 'ch': ch(f['ch']),
            'md': md(f['md']), 't': [] if f['t'] == '-' else [Fraction(x) for x in f['t'].split(',')],
            'data': None if f['data'] == '*' else nums(f['data'])}


# --------------------------------------------------------------------------
# the property, on implementation outputs
# --------------------------------------------------------------------------

def oracle_get(pre, idx, line):
    items = idx['items']
    nd = len(pre['shape'])
    per = ref_axis_items(items, nd)
    what = 'x' + show_index(idx)
    if line.startswith('err '):
        if per is not None and not any(it[0] == 'n' for it in items) and all(it == FULL for it in per[:-1]) \
                and per[-1][0] == 's' and (per[-1][3] is None or per[-1][3] >= 1):
            return f'{what}: a plain time slice raised {line[4:]}'
        return None
    if line.startswith('scalar'):
        return None
    if per is None or per[-1][0] != 's':
        return None      # int / list / mask on the TIME axis: outside the claim (only slices of the time axis are)
    post = parse_line(line)
    if post is None:
        return f'{what}: unparsable result {line[:80]}'
    pyidx = py_index(idx)
    grids = np.indices(tuple(pre['shape']))
    try:
        src = [g[pyidx] for g in grids]
    except Exception:
        return None
    shape = list(src[0].shape)
    if shape != post['shape']:
        return f"{what}: result shape {post['shape']} but NumPy selects {shape}"
    if post['data'] is not None and pre['data'] is not None:
        want = np.array(pre['data'], dtype=np.int64).reshape(pre['shape'])[pyidx].ravel().tolist()
        if want != post['data']:
            return f'{what}: data differ from NumPy selection'
    rnd = len(shape)
    nfancy = sum(1 for it in items if is_fancy(it))
    # ---- counts = axis lengths
    if isinstance(post['ch'], list):
        if rnd < 2:
            return f"{what}: channel is a list {post['ch']} on a 1-D result"
        if len(post['ch']) != shape[-2]:
            return f"{what}: {len(post['ch'])} channel labels {post['ch']} for an axis of length {shape[-2]} (shape {shape})"
    md_axis = None
    if isinstance(post['md'], list):
        if rnd < 2:
            return f"{what}: metadata is a list on a 1-D result"
        md_axis = -3 if rnd >= 3 else -2
        if len(post['md']) != shape[md_axis]:
            return f"{what}: {len(post['md'])} metadata entries {post['md']} for an axis of length {shape[md_axis]} (shape {shape})"

    def along(values, axis):
        """values laid along `axis` of the result, broadcast to the result shape."""
        sh = [1] * rnd
        sh[axis] = len(values)
        arr = np.empty(len(values), dtype=object)
        for i, v in enumerate(values):
            arr[i] = v
        return np.broadcast_to(arr.reshape(sh), shape)

    def pick(values, coords):
        arr = np.empty(len(values), dtype=object)
        for i, v in enumerate(values):
            arr[i] = v
        return arr[coords]

    # ---- channel labels
    if nd >= 2:
        c_ax = nd - 2
        if not isinstance(pre['ch'], list):
            return None
        have = pick(pre['ch'], src[c_ax])          # label every result element had in the source
        if isinstance(post['ch'], list):
            claimed = along(post['ch'], -2)
            if not np.array_equal(have, claimed):
                return f"{what}: channel labels {post['ch']} do not match the selected rows (source labels {pre['ch']})"
        elif have.size and not np.all(have == post['ch']):
            return f"{what}: channel label {post['ch']!r} but the samples come from {sorted(set(map(str, have.ravel())))}"
        if nfancy <= 1 and not any(it[0] == 'n' for it in items):
            it = per[c_ax]
            want = pick(pre['ch'], np.arange(len(pre['ch']))[py_item(it)])
            want = want.tolist() if isinstance(want, np.ndarray) else want
            if want != post['ch']:
                return f"{what}: channel {post['ch']} but this index selects {want} from {pre['ch']}"
    else:
        got = post['ch'] if isinstance(post['ch'], list) else [post['ch']]
        if any(g != pre['ch'] for g in got):
            return f"{what}: channel {post['ch']} from a 1-D array labelled {pre['ch']!r}"
    # ---- metadata
    if nd >= 3:
        e_ax = nd - 3
        if not isinstance(pre['md'], list):
            return None
        have = pick(pre['md'], src[e_ax])
        if isinstance(post['md'], list):
            claimed = along(post['md'], md_axis)
            if not np.array_equal(have, claimed):
                return f"{what}: metadata {post['md']} do not match the selected epochs (source {pre['md']})"
        elif have.size and not np.all(have == post['md']):
            return f"{what}: metadata {post['md']!r} but the samples come from epochs {sorted(set(have.ravel()))}"
        if nfancy <= 1 and not any(it[0] == 'n' for it in items):
            it = per[e_ax]
            want = pick(pre['md'], np.arange(len(pre['md']))[py_item(it)])
            want = want.tolist() if isinstance(want, np.ndarray) else want
            if want != post['md']:
                return f"{what}: metadata {post['md']} but this index selects {want} from {pre['md']}"
    else:
        got = post['md'] if isinstance(post['md'], list) else [post['md']]
        if any(g != pre['md'] for g in got):
            return f"{what}: metadata {post['md']} from an array with metadata {pre['md']!r}"
    # ---- time base
    tit = per[-1]
    if tit[0] == 's' and (tit[3] is None or tit[3] >= 1):
        step = 1 if tit[3] is None else tit[3]
        if post['fs'] != pre['fs'] / step:
            return f"{what}: fs {post['fs']} after step {step} on fs {pre['fs']}"
        if step == 1:
            want = pre['t'][slice(tit[1], tit[2])]
            if post['t'] != want:
                return (f"{what}: time axis of the slice starts at {post['t'][:1]} (s0={post['s0']}), "
                        f"the slice of the time axis at {want[:1]} (source s0={pre['s0']}, n={len(pre['t'])})")
            if len(pre['t']):
                have = pick(pre['t'], src[-1])
                if have.size and not np.array_equal(have, along(post['t'], -1)):
                    return f"{what}: samples do not keep their time stamps"
    return None


def same_annot(a, b, data=True):
    keys = ['shape', 's0', 'fs', 'ch', 'md', 't'] + (['data'] if data else [])
    return [k for k in keys if a[k] != b[k]]


class C11(Spec):
    PROP = 'C11'
    MODEL = 'pdata'
    PROOF_MODULES = ['PsiProofs.C11']
    DESIGN_REF = 'DESIGN.md §6 C11'
    TRUST = [
        'modelled, not verified: NumPy indexing (basic indexing, one broadcast group of advanced indices) and '
        'np.concatenate — lean/PsiModel/PData.lean npGetitem/npConcat say which source sample sits where; every check '
        'compares this with NumPy itself on index-valued arrays',
        'Python list indexing / slice.indices semantics transcribed from the language reference (sliceIndices)',
        'float sampling rates: harness uses rates 27*2^k so that every fs/step in a case is exact in binary64; '
        '.t is compared as the exact rational each float is the correct rounding of',
    ]
    ASSUMPTIONS = [
        'arrays are built by PipelineData(...) with a channel list (>= 2-D) / metadata list (3-D) of the axis length',
        'the first-sample index after a strided slice is excluded from the claim (pinned by the existing tests)',
        'list/mask indexing of the time axis is outside the claim (only slices of the time axis are)',
    ]
    RULE = ('register programs over 1-/2-/3-D annotated arrays: (i) every slice start/stop in [-B,B] u {None} x step '
            'in {None,1,2,3} on the time, channel and epoch axis of arrays with that axis of length 0..N, in every '
            'syntactic position (bare, after Ellipsis, in a full tuple); (ii) every int in [-N-2,N+1], every int list of '
            'length <= 2 and every boolean mask of length N-1..N+1 as list and ndarray on the channel and epoch axes; '
            '(iii) split at every cut in [-N-3,N+3] (+ two-cut splits) and concat on each axis, altered pieces; '
            '(iv) seeded random chains of 1-3 index expressions from the whole grammar (Ellipsis, newaxis, several '
            'lists) with arithmetic/copy/astype in between. Non-trivial = the case reaches a result array whose shape '
            'or annotations differ from the source, or an exception; distinct = distinct case hash.')
    exhaustive_note = {
        'quick': 'slices: all start/stop in [-5,5] u {None}, step in {None,1,2,3}, axis length 0..3, each axis/position; '
                 'ints, int lists (len<=2), bool masks: all, axis length 1..3; split/concat: every cut in [-n-3,n+3], n<=3',
        'thorough': 'slices: all start/stop in [-7,7] u {None}, step in {None,1,2,3,4}, axis length 0..4, each axis/position; '
                    'ints, int lists (len<=2), bool masks: all, axis length 1..4; split/concat: every cut in [-n-3,n+3], n<=4, all two-cut splits',
    }
    PARALLEL = 16

    # ---- arrays ---------------------------------------------------------
    @staticmethod
    def mk_arr(shape, s0=0, fs=(1728, 1), base=0, none_labels=False, md0=0):
        nd = len(shape)
        if nd == 1:
            ch = None if none_labels else None
        else:
            ch = [None] * shape[-2] if none_labels else [LABELS[i % 6] + ('' if i < 6 else str(i)) for i in range(shape[-2])]
        md = [md0 + i for i in range(shape[0])] if nd == 3 else md0
        return {'shape': list(shape), 'base': base, 's0': s0, 'fs': list(fs), 'ch': ch, 'md': md}

    def rand_arr(self, rng, nd=None, maxn=4):
        nd = nd or rng.choice([1, 2, 2, 3, 3])
        shape = [rng.randint(1, maxn) for _ in range(nd)]
        if rng.random() < 0.1:
            shape[rng.randrange(nd)] = 0
        fs = (27 * 2 ** rng.randint(0, 10), rng.choice([1, 1, 1, 2, 4]))
        a = self.mk_arr(shape, s0=rng.choice([0, 0, 5, -7, -3, 100, rng.randint(-50, 50)]), fs=fs,
                        base=rng.choice([0, 0, 100]), none_labels=rng.random() < 0.1, md0=rng.choice([0, 10]))
        if nd == 1 and rng.random() < 0.3:
            a['ch'] = rng.choice(LABELS)
        return a

    # ---- index expressions ----------------------------------------------
    def rand_slice(self, rng, n, unit=None):
        def bound():
            r = rng.random()
            if r < 0.3:
                return None
            return rng.randint(-n - 3, n + 3)
        step = rng.choice([None, None, 1, 1, 2, 3, 4]) if unit is None else rng.choice([None, 1])
        return ['s', bound(), bound(), step]

    def rand_item(self, rng, n, axis_is_time):
        r = rng.random()
        if r < 0.45 or (axis_is_time and r < 0.85):
            return self.rand_slice(rng, n)
        if r < 0.6:
            return ['i', rng.randint(-n - 1, n)]
        k = rng.choice('LBAM')
        if k in 'LA':
            m = rng.randint(0, 3)
            lo, hi = -n - (rng.random() < 0.1), n - 1 + (rng.random() < 0.1)
            return [k, [rng.randint(lo, max(lo, hi)) for _ in range(m)]]
        m = n if rng.random() < 0.9 else max(0, n + rng.choice([-1, 1]))
        if m == 0 and n > 0:
            m = n
        p = rng.choice([0.0, 0.5, 0.5, 1.0])
        return [k, [1 if rng.random() < p else 0 for _ in range(m)]]

    def rand_index(self, rng, shape):
        nd = len(shape)
        r = rng.random()
        if r < 0.25:
            it = rng.choice([['n'], ['e'], self.rand_item(rng, shape[0], nd == 1), self.rand_item(rng, shape[0], nd == 1)])
            if it[0] == 'M' and not it[1] and shape[0]:
                it = ['A', []]
            return {'t': 'one', 'items': [it]}
        k = rng.choice([nd, nd, nd, nd - 1, nd + 1]) if r < 0.9 else rng.randint(0, nd + 1)
        k = max(0, k)
        items = []
        if rng.random() < 0.5 and k < nd:
            # Ellipsis form: some leading entries, ..., trailing entries
            lead = rng.randint(0, k)
            items = [self.rand_item(rng, shape[i], False) for i in range(lead)] + [['e']] + \
                    [self.rand_item(rng, shape[nd - (k - lead) + i], nd - (k - lead) + i == nd - 1) for i in range(k - lead)]
        else:
            items = [self.rand_item(rng, shape[min(i, nd - 1)], i == nd - 1) for i in range(k)]
            if rng.random() < 0.15:
                items.insert(rng.randint(0, len(items)), ['e'])
        while rng.random() < 0.12:
            items.insert(0 if rng.random() < 0.7 else rng.randint(0, len(items)), ['n'])
        # keep at most one list most of the time (several lists are paired element-wise by NumPy)
        if rng.random() < 0.85:
            seen = False
            for j, it in enumerate(items):
                if is_fancy(it):
                    if seen:
                        items[j] = FULL
                    seen = True
        # several lists of which one selects nothing: NumPy then skips the bounds checks of the others (a quirk)
        fz = [j for j, it in enumerate(items) if is_fancy(it)]
        if len(fz) >= 2 and any(not any(items[j][1]) if items[j][0] in 'BM' else not items[j][1] for j in fz):
            for j in fz[1:]:
                items[j] = FULL
        # NumPy accepts an EMPTY boolean ndarray on any axis (a quirk): use the empty integer array instead
        items = [['A', []] if it[0] == 'M' and not it[1] else it for it in items]
        return {'t': 'tup', 'items': items}

    @staticmethod
    def ref_shape(shape, idx):
        try:
            return list(np.empty(shape)[py_index(idx)].shape)
        except Exception:
            return None

    # ---- cases ----------------------------------------------------------
    def cases(self, rng, tier):
        quick = tier == 'quick'
        N = 3 if quick else 4
        B = 5 if quick else 7
        steps = [None, 1, 2, 3] if quick else [None, 1, 2, 3, 4]
        bounds = [None] + list(range(-B, B + 1))
        get = lambda idx, k=0, j=1: {'op': 'get', 'k': k, 'j': j, 'idx': idx}

        def positions(nd, axis, it):
            """the syntactic positions in which `it` can address `axis` of an nd-array."""
            out = []
            lead = [FULL] * axis
            if axis == 0:
                out.append({'t': 'one', 'items': [it]})
            out.append({'t': 'tup', 'items': lead + [it]})
            out.append({'t': 'tup', 'items': lead + [it] + [FULL] * (nd - axis - 1)})
            out.append({'t': 'tup', 'items': [['e'], it] + [FULL] * (nd - axis - 1)})
            if axis < nd - 1:
                out.append({'t': 'tup', 'items': lead + [it, ['e']]})
            seen, res = set(), []
            for o in out:
                key = enc_index(o)
                if key not in seen:
                    seen.add(key)
                    res.append(o)
            return res

        # (i) slices on every axis, exhaustive small scope
        s0s = [-7, 0, 5]
        combos = [(1, 0), (2, 1), (2, 0), (3, 2), (3, 1), (3, 0)]
        ci = 0
        for nd, axis in combos:
            for n in range(0, N + 1):
                shape = [2] * nd
                shape[axis] = n
                if nd == 3 and axis != 0:
                    shape[0] = 3
                for a in bounds:
                    for b in bounds:
                        for st in steps:
                            it = ['s', a, b, st]
                            pos = positions(nd, axis, it)
                            ci += 1
                            arr = self.mk_arr(shape, s0=s0s[ci % 3], fs=(27 * 64, 1))
                            # one position per case (rotating), all positions for the boundary-relevant starts
                            chosen = pos if (a is not None and abs(a) >= n) or quick is False and n <= 2 else [pos[ci % len(pos)]]
                            for p in chosen:
                                yield {'kind': f'slice-ax{axis - nd}', 'arrs': [arr], 'ops': [get(p)]}

        # (ii) ints, int lists, masks on the channel and epoch axes
        for nd, axis in [(2, 0), (3, 1), (3, 0)]:
            for n in range(1, N + 1):
                shape = [2] * nd
                shape[axis] = n
                shape[-1] = 3
                its = [['i', v] for v in range(-n - 2, n + 2)]
                for k in 'LA':
                    its.append([k, []])
                    its += [[k, [v]] for v in range(-n - 1, n + 1)]
                    its += [[k, [v, w]] for v in range(-n, n) for w in range(-n, n)]
                    its.append([k, list(range(n))])
                    its.append([k, list(range(1, n + 1))])      # no zero entry, one out of range
                    its.append([k, list(range(1, n))])          # no zero entry, in range
                    its.append([k, [n - 1] * 3])
                for k in 'BM':
                    for m in (n - 1, n, n + 1):
                        if m == 0 and k == 'M':
                            continue    # NumPy accepts an EMPTY boolean array on any axis (a quirk): not a mask of this axis
                        its += [[k, list(bits)] for bits in itertools.product([0, 1], repeat=m)]
                for it in its:
                    for p in positions(nd, axis, it):
                        ci += 1
                        arr = self.mk_arr(shape, s0=s0s[ci % 3], fs=(27 * 64, 1), none_labels=(ci % 17 == 0))
                        yield {'kind': f'select-ax{axis - nd}', 'arrs': [arr], 'ops': [get(p)]}

        # (iii) split + concat
        for nd in (1, 2, 3):
            for axis in range(nd):
                dim = ['epoch', 'channel', 'time'][3 - nd + axis]
                for n in range(0, N + 1):
                    shape = [2] * nd
                    shape[axis] = n
                    cuts1 = [[c] for c in range(-n - 3, n + 4)]
                    cuts2 = [[c, d] for c in range(0, n + 1) for d in range(c, n + 1)] if (not quick or n <= 2) else []
                    for cuts in cuts1 + cuts2:
                        ci += 1
                        arr = self.mk_arr(shape, s0=s0s[ci % 3], fs=(27 * 8, 1))
                        yield self.split_case(arr, axis, dim, cuts, None)
                        if n >= 1 and len(cuts) == 1 and 0 < cuts[0] < n + 1:
                            for alter in self.alterations(dim, nd):
                                yield self.split_case(arr, axis, dim, cuts, alter)

        # stack 1-D / 2-D arrays into epochs, 1-D into channels
        for nd, dim in [(1, 'epoch'), (2, 'epoch'), (1, 'channel')]:
            for k in (1, 2, 3):
                shape = [2, 3][-nd:]
                arrs = [self.mk_arr(shape, s0=4, fs=(432, 1), base=10 * i, md0=(i if dim == 'epoch' else 0)) for i in range(k)]
                if nd == 1 and dim == 'channel':
                    for i, a in enumerate(arrs):
                        a['ch'] = LABELS[i]
                yield {'kind': 'stack', 'arrs': arrs,
                       'ops': [{'op': 'concat', 'j': 9, 'dim': dim, 'ks': list(range(k)), 'expect': None}]}

        # the expression pinned by tests/pipeline/test_pipeline_data.py::test_pipeline_data_3d (known finding C11-KF1)
        yield {'kind': 'two-lists', 'arrs': [self.mk_arr([3, 2, 4], s0=0, fs=(1728, 1))],
               'ops': [get({'t': 'tup', 'items': [['L', [0, 2]], ['L', [0]]]})]}

        # (iv) random chains over the whole grammar
        nchain = 2500 if quick else 250000
        for _ in range(nchain):
            arr = self.rand_arr(rng)
            shape = list(arr['shape'])
            ops, k = [], 0
            for _step in range(rng.randint(1, 3)):
                idx = self.rand_index(rng, shape)
                ops.append(get(idx, k, k + 1))
                new = self.ref_shape(shape, idx)
                if new is None or not canonical_after(len(shape), idx) or not new:
                    break
                k += 1
                shape = new
                if rng.random() < 0.25:
                    ops.append({'op': 'fin', 'k': k, 'j': k + 1, 'how': rng.choice(['add', 'mul', 'neg', 'copy', 'astype', 'gt', 'abs', 'self'])})
                    k += 1
            yield {'kind': 'chain', 'arrs': [arr], 'ops': ops}

        # random slice-then-concat programs (pieces from unit-step cuts, possibly nested)
        nsc = 600 if quick else 50000
        for _ in range(nsc):
            arr = self.rand_arr(rng, maxn=6)
            nd = len(arr['shape'])
            axis = rng.randrange(nd)
            dim = ['epoch', 'channel', 'time'][3 - nd + axis]
            n = arr['shape'][axis]
            ncut = rng.randint(1, 3)
            cuts = sorted(rng.randint(0, n) for _ in range(ncut)) if rng.random() < 0.8 else [rng.randint(-n - 3, n + 3)]
            alter = rng.choice(self.alterations(dim, nd)) if rng.random() < 0.3 and n >= 1 else None
            yield self.split_case(arr, axis, dim, cuts, alter, prefix=rng.random() < 0.5)

        # isolation of annotations: tag one derived piece in place; the parent, the sibling and a copy keep theirs,
        # and the tagged piece no longer concatenates with its sibling (mismatched metadata are rejected)
        # (1-D / 2-D only: for 3-D arrays the per-epoch dicts are shared between an array and its views by design
        # of the shallow copy in __array_finalize__, and the property does not speak about that)
        for nd in (1, 2):
            for how in ('copy', 'add', 'astype'):
                arr = self.mk_arr([2, 2, 4][-nd:], s0=5, fs=(432, 1), md0=3)
                it1, it2 = ['s', None, 2, None], ['s', 2, None, None]
                val = 55 if nd < 3 else [55] * arr['shape'][0]
                ops = [{'op': 'get', 'k': 0, 'j': 1, 'idx': {'t': 'tup', 'items': [['e'], it1]}},
                       {'op': 'get', 'k': 0, 'j': 2, 'idx': {'t': 'tup', 'items': [['e'], it2]}},
                       {'op': 'fin', 'k': 0, 'j': 3, 'how': how},
                       {'op': 'set', 'k': 1, 'field': 'md', 'value': val, 'inplace': True},
                       {'op': 'show', 'k': 0}, {'op': 'show', 'k': 2}, {'op': 'show', 'k': 3},
                       {'op': 'concat', 'j': 30, 'dim': 'time', 'ks': [1, 2], 'expect': 'reject'}]
                yield {'kind': 'isolation', 'arrs': [arr], 'ops': ops}
            # ... and in the other direction: tagging the RESULT of a concat leaves the pieces it was made from
            # alone, so the same adjacent pieces still concatenate to the original afterwards
            arr = self.mk_arr([2, 2, 4][-nd:], s0=5, fs=(432, 1), md0=3)
            it1, it2 = ['s', None, 2, None], ['s', 2, None, None]
            ops = [{'op': 'get', 'k': 0, 'j': 1, 'idx': {'t': 'tup', 'items': [['e'], it1]}},
                   {'op': 'get', 'k': 0, 'j': 2, 'idx': {'t': 'tup', 'items': [['e'], it2]}},
                   {'op': 'concat', 'j': 30, 'dim': 'time', 'ks': [1, 2], 'expect': 'restore:0'},
                   {'op': 'set', 'k': 30, 'field': 'md', 'value': 66, 'inplace': True},
                   {'op': 'show', 'k': 1}, {'op': 'show', 'k': 2}, {'op': 'show', 'k': 0},
                   {'op': 'concat', 'j': 31, 'dim': 'time', 'ks': [1, 2], 'expect': 'restore:0'}]
            yield {'kind': 'isolation', 'arrs': [arr], 'ops': ops}

        # arithmetic / copies on fresh arrays
        for nd in (1, 2, 3):
            for how in ['add', 'mul', 'neg', 'copy', 'astype', 'gt', 'abs', 'self']:
                arr = self.mk_arr([3, 2, 4][-nd:], s0=-7, fs=(864, 1), md0=3)
                yield {'kind': 'finalize', 'arrs': [arr], 'ops': [{'op': 'fin', 'k': 0, 'j': 1, 'how': how}]}

    @staticmethod
    def alterations(dim, nd):
        # 'fsnear': a rate differing by one part in 2^20 (a tolerant comparison would let it through)
        out = [('fs', [27, 1]), ('fsnear', None)]
        if dim == 'time':
            out += [('s0', +1), ('s0', -1), ('s0', +5)]
        if dim != 'channel':
            out.append(('ch', 'zz' if nd == 1 else None))
        if dim != 'epoch':
            out.append(('md', 77))
        return out

    def split_case(self, arr, axis, dim, cuts, alter, prefix=False):
        """pieces x[:c1], x[c1:c2], …, x[ck:] along `axis` (in registers 1…), then concat."""
        nd = len(arr['shape'])
        n = arr['shape'][axis]
        src, ops = 0, []
        if prefix and dim == 'time' and n >= 2:
            # work on a slice of the original, so that the pieces carry a shifted s0
            ops.append({'op': 'get', 'k': 0, 'j': 20, 'idx': {'t': 'tup', 'items': [['e'], ['s', 1, None, None]]}})
            src, n = 20, n - 1
            cuts = [min(c, n) if c >= 0 else c for c in cuts]
        bnds = [None] + list(cuts) + [None]
        ks = []
        for i in range(len(bnds) - 1):
            it = ['s', bnds[i], bnds[i + 1], None]
            items = [FULL] * axis + [it] if axis else [it]
            idx = {'t': 'tup', 'items': items}
            if dim == 'time':
                idx = {'t': 'tup', 'items': [['e'], it]} if i % 2 else {'t': 'tup', 'items': [FULL] * axis + [it]}
            ops.append({'op': 'get', 'k': src, 'j': i + 1, 'idx': idx})
            ks.append(i + 1)
        kind = 'split'
        expect = f'restore:{src}'
        if alter is not None and ((alter[0] == 'ch' and nd > 1 and arr['shape'][-2] == 0) or
                                  (alter[0] == 'md' and nd == 3 and arr['shape'][0] == 0)):
            alter = None        # the altered value would equal the original (empty list)
        if alter is not None:
            field, val = alter
            piece = ks[-1]
            if field == 's0':
                ops.append({'op': 'set', 'k': piece, 'field': 's0', 'delta': val})
            elif field == 'fs':
                ops.append({'op': 'set', 'k': piece, 'field': 'fs', 'value': [arr['fs'][0] * 2, arr['fs'][1]]})
            elif field == 'fsnear':
                ops.append({'op': 'set', 'k': piece, 'field': 'fs',
                            'value': [arr['fs'][0] * (2 ** 20 + 1), arr['fs'][1] * 2 ** 20]})
            elif field == 'ch':
                v = val if nd == 1 else ['zz'] * arr['shape'][-2]
                ops.append({'op': 'set', 'k': piece, 'field': 'ch', 'value': v})
            else:
                v = val if nd < 3 else [val] * arr['shape'][0]
                ops.append({'op': 'set', 'k': piece, 'field': 'md', 'value': v})
            kind, expect = 'altered', 'reject'
        ops.append({'op': 'concat', 'j': 30, 'dim': dim, 'ks': ks, 'expect': expect})
        return {'kind': f'{kind}-{dim}', 'arrs': [arr], 'ops': ops}

    # ---- model side -----------------------------------------------------
    def model_lines(self, c):
        lines = []
        for k, a in enumerate(c['arrs']):
            lines.append(f"new {k} {a['base']} {ilist(a['shape'])} {a['s0']} {a['fs'][0]}/{a['fs'][1]} "
                         f"{enc_ch(a['ch'])} {enc_md(a['md'])}")
        # `set s0 delta` needs the current value: tracked from the (deterministic) program text
        for op in c['ops']:
            if op['op'] == 'get':
                lines.append(f"get {op['k']} {op['j']} {enc_index(op['idx'])}")
            elif op['op'] == 'fin':
                lines.append(f"fin {op['k']} {op['j']}")
            elif op['op'] == 'show':
                lines.append(f"show {op['k']}")
            elif op['op'] == 'set':
                if op['field'] == 's0':
                    lines.append(f"adds0 {op['k']} {op['delta']}")
                elif op['field'] == 'fs':
                    lines.append(f"set {op['k']} fs {op['value'][0]}/{op['value'][1]}")
                elif op['field'] == 'ch':
                    lines.append(f"set {op['k']} ch {enc_ch(op['value'])}")
                else:
                    lines.append(f"set {op['k']} md {enc_md(op['value'])}")
            elif op['op'] == 'concat':
                lines.append(f"concat {op['j']} {op['dim']} {ilist(op['ks'])}")
        return lines

    # ---- implementation side ---------------------------------------------
    def impl_lines(self, c):
        from psiaudio import pipeline as P
        regs, out = {}, []

        def mkmd(m):
            return [{'i': v} for v in m] if isinstance(m, list) else {'i': m}

        for k, a in enumerate(c['arrs']):
            n = int(np.prod(a['shape'])) if a['shape'] else 1
            data = (a['base'] + np.arange(n, dtype=float)).reshape(a['shape'])
            ch = list(a['ch']) if isinstance(a['ch'], list) else a['ch']
            regs[k] = P.PipelineData(data, fs=a['fs'][0] / a['fs'][1], s0=a['s0'], channel=ch, metadata=mkmd(a['md']))
            out.append(canon_pd(regs[k]))
        for op in c['ops']:
            try:
                if op['op'] == 'get':
                    if op['k'] not in regs:
                        out.append('err no-register')
                        continue
                    r = regs[op['k']][py_index(op['idx'])]
                    if isinstance(r, P.PipelineData):
                        regs[op['j']] = r
                        out.append(canon_pd(r))
                    else:
                        out.append(f'scalar {int(r)}')
                elif op['op'] == 'fin':
                    if op['k'] not in regs:
                        out.append('err no-register')
                        continue
                    a = regs[op['k']]
                    how = op['how']
                    r = {'add': lambda: a + 1, 'mul': lambda: a * 2.0, 'neg': lambda: -a, 'copy': lambda: a.copy(),
                         'astype': lambda: a.astype('int'), 'gt': lambda: a > 3, 'abs': lambda: np.abs(a),
                         'self': lambda: a + a}[how]()
                    out.append(canon_pd(r, data=False))
                    # keep index-valued data for the rest of the chain; the annotations are those of the result
                    r2 = np.asarray(a).copy().view(P.PipelineData)
                    r2.fs, r2.s0, r2.channel, r2.metadata = r.fs, r.s0, r.channel, r.metadata
                    regs[op['j']] = r2
                elif op['op'] == 'set':
                    if op['k'] not in regs:
                        out.append('err no-register')
                        continue
                    a = regs[op['k']]
                    if op['field'] == 's0':
                        a.s0 = a.s0 + op['delta']
                    elif op['field'] == 'fs':
                        a.fs = op['value'][0] / op['value'][1]
                    elif op['field'] == 'ch':
                        a.channel = list(op['value']) if isinstance(op['value'], list) else op['value']
                    elif op.get('inplace'):
                        # the caller tags this piece through the public API (in-place update of ITS metadata)
                        a.add_metadata('i', op['value'][0] if isinstance(op['value'], list) else op['value'])
                    else:
                        a.metadata = mkmd(op['value'])
                    out.append(canon_pd(a))
                elif op['op'] == 'show':
                    out.append(canon_pd(regs[op['k']]) if op['k'] in regs else 'err no-register')
                elif op['op'] == 'concat':
                    if any(k not in regs for k in op['ks']):
                        out.append('err no-register')
                        continue
                    r = P.concat([regs[k] for k in op['ks']], axis={'time': -1, 'channel': -2, 'epoch': -3}[op['dim']])
                    regs[op['j']] = r
                    out.append(canon_pd(r))
            except Exception as e:
                out.append(f'err {type(e).__name__}')
        return out

    @staticmethod
    def _consistent(r):
        try:
            if r.ndim > 1 and not (isinstance(r.channel, list) and len(r.channel) == r.shape[-2]):
                return False
            if r.ndim > 2 and not (isinstance(r.metadata, list) and len(r.metadata) == r.shape[-3]):
                return False
            return True
        except Exception:
            return False

    # ---- oracle -----------------------------------------------------------
    def oracle(self, c, out):
        na = len(c['arrs'])
        if len(out) != na + len(c['ops']):
            return f'adapter produced {len(out)} lines for {na + len(c["ops"])} operations: {out[-1:]}'
        regs, canon = {}, {}
        for k in range(na):
            regs[k] = parse_line(out[k])
            canon[k] = True
            if regs[k] is None:
                return f'constructor failed: {out[k]}'
        for n, op in enumerate(c['ops']):
            line = out[na + n]
            if line.startswith('HARNESS-EXC'):
                return line
            pre = regs.get(op.get('k'))
            if op['op'] == 'get':
                if pre is None:
                    continue
                if canon.get(op['k']):
                    f = oracle_get(pre, op['idx'], line)
                    if f is not None:
                        return f'op {n}: {f}'
                post = parse_line(line)
                if post is not None:
                    regs[op['j']] = post
                    canon[op['j']] = canon.get(op['k'], False) and canonical_after(len(pre['shape']), op['idx'])
            elif op['op'] == 'fin':
                if pre is None:
                    continue
                post = parse_line(line)
                if post is None:
                    return f"op {n}: {op['how']} raised {line}"
                d = same_annot(pre, post, data=False)
                if d:
                    return f"op {n}: {op['how']} changed {d}: {[pre[k] for k in d]} -> {[post[k] for k in d]}"
                post['data'] = pre['data']
                regs[op['j']] = post
                canon[op['j']] = canon.get(op['k'], False)
            elif op['op'] == 'set':
                post = parse_line(line)
                if post is not None:
                    regs[op['k']] = post
            elif op['op'] == 'show':
                post = parse_line(line)
                if pre is not None and post is not None:
                    d = same_annot(pre, post, data=False)
                    if d:
                        return (f"op {n}: annotations {d} of r{op['k']} changed although no operation was applied to it "
                                f"(another array derived from the same data was tagged): "
                                f"{[pre[k] for k in d]} -> {[post[k] for k in d]}")
            elif op['op'] == 'concat':
                if any(k not in regs for k in op['ks']):
                    continue
                exp = op.get('expect')
                post = parse_line(line)
                if exp == 'reject':
                    if post is not None:
                        return f"op {n}: concat along {op['dim']} accepted a piece with altered {self._altered(c)}"
                elif exp and exp.startswith('restore:'):
                    orig = regs[int(exp.split(':')[1])]
                    if post is None:
                        pcs = [(regs[k]['s0'], regs[k]['shape']) for k in op['ks']]
                        return f"op {n}: concat along {op['dim']} of adjacent pieces (s0, shape) {pcs} raised {line[4:]}"
                    d = same_annot(orig, post)
                    if d:
                        return f"op {n}: split + concat along {op['dim']} does not restore {d}: {[orig[k] for k in d]} -> {[post[k] for k in d]}"
                elif post is not None:
                    sh = post['shape']
                    if isinstance(post['ch'], list) and len(sh) >= 2 and len(post['ch']) != sh[-2]:
                        return f'op {n}: concat result has {len(post["ch"])} labels for {sh[-2]} channels'
                    if isinstance(post['md'], list) and len(sh) >= 3 and len(post['md']) != sh[-3]:
                        return f'op {n}: concat result has {len(post["md"])} metadata entries for {sh[-3]} epochs'
                if post is not None:
                    regs[op['j']] = post
        return None

    @staticmethod
    def _altered(c):
        return [(o['field'], o.get('value', o.get('delta'))) for o in c['ops'] if o['op'] == 'set']

    def nontrivial(self, c, out):
        na = len(c['arrs'])
        return any(l.startswith('err') or (l.startswith('arr') and l != out[0]) for l in out[na:])

    def kind(self, c):
        return c['kind']

    # ---- known findings ----------------------------------------------------
    def known(self, c, failure):
        """C11-KF1: two or more list/array/mask entries in ONE index expression are paired element-wise by
        NumPy (their axes merge into one) while the labels are selected per axis.
        Boundary proved in Lean (PsiProofs/C11.lean): `single_advanced_counts` (<= 1 list/mask entry: counts always
        equal the axis lengths) and `two_advanced_boundary` (two entries: counts differ iff the two lists have
        different lengths) -- hence only a COUNT failure on such an expression is an instance of the finding."""
        if not failure.startswith('op ') or 'for an axis of length' not in failure:
            return None
        try:
            n = int(failure[3:].split(':')[0])
            op = c['ops'][n]
        except Exception:
            return None
        if op['op'] != 'get':
            return None
        items = op['idx']['items']
        # source array of that op must be 3-D: replay the shapes with plain NumPy
        shapes = {k: list(a['shape']) for k, a in enumerate(c['arrs'])}
        for o in c['ops'][:n + 1]:
            if o['op'] == 'get' and o['k'] in shapes:
                s = self.ref_shape(shapes[o['k']], o['idx'])
                if o is op:
                    per = ref_axis_items(items, len(shapes[o['k']]))
                    if per is not None and sum(1 for it in items if is_fancy(it)) >= 2:
                        return 'C11-KF1'
                    return None
                if s is not None:
                    shapes[o['j']] = s
            elif o['op'] == 'fin' and o['k'] in shapes:
                shapes[o['j']] = shapes[o['k']]
        return None

    # ---- search helpers ------------------------------------------------------
    def neighbours(self, c, rng):
        for n, op in enumerate(c['ops']):
            if op['op'] != 'get':
                continue
            for j, it in enumerate(op['idx']['items']):
                if it[0] == 's':
                    for pos in (1, 2):
                        for d in (-2, -1, 1, 2):
                            if it[pos] is not None:
                                cc = copy.deepcopy(c)
                                cc['ops'][n]['idx']['items'][j][pos] = it[pos] + d
                                yield cc
                elif it[0] == 'i':
                    for d in (-1, 1):
                        cc = copy.deepcopy(c)
                        cc['ops'][n]['idx']['items'][j][1] = it[1] + d
                        yield cc

    def shrink_candidates(self, c):
        # fewer operations
        if len(c['ops']) > 1 and c['ops'][-1]['op'] != 'concat':
            cc = copy.deepcopy(c)
            cc['ops'] = cc['ops'][:-1]
            yield cc
        # plain annotations
        for a_i, a in enumerate(c['arrs']):
            if a['s0'] != 0:
                cc = copy.deepcopy(c)
                cc['arrs'][a_i]['s0'] = 0
                yield cc
            if a['base'] != 0:
                cc = copy.deepcopy(c)
                cc['arrs'][a_i]['base'] = 0
                yield cc
        # simpler index entries (not for split/concat programs: their slices must stay a partition)
        for n, op in enumerate(c['ops']):
            if op['op'] != 'get' or any(o['op'] == 'concat' for o in c['ops']):
                continue
            items = op['idx']['items']
            for j, it in enumerate(items):
                if it[0] == 's':
                    for pos in (1, 2, 3):
                        if it[pos] is not None:
                            cc = copy.deepcopy(c)
                            cc['ops'][n]['idx']['items'][j][pos] = None
                            yield cc
                            if it[pos] not in (0, 1, -1):
                                cc = copy.deepcopy(c)
                                cc['ops'][n]['idx']['items'][j][pos] = it[pos] - (1 if it[pos] > 0 else -1)
                                yield cc
                elif it[0] in 'ne' or it != FULL:
                    if it[0] in 'LBAM' and len(it[1]) > 1:
                        for q in range(len(it[1])):
                            cc = copy.deepcopy(c)
                            del cc['ops'][n]['idx']['items'][j][1][q]
                            yield cc

    def describe(self, c):
        a = c['arrs'][0]
        s = f"x = PipelineData(shape {a['shape']}, fs={a['fs'][0]}/{a['fs'][1]}, s0={a['s0']}, channel={a['ch']}, metadata ids {a['md']}); "
        parts = []
        for op in c['ops']:
            if op['op'] == 'get':
                parts.append(f"r{op['j']} = r{op['k']}{show_index(op['idx'])}")
            elif op['op'] == 'fin':
                parts.append(f"r{op['j']} = {op['how']}(r{op['k']})")
            elif op['op'] == 'set':
                if op.get('inplace'):
                    parts.append(f"r{op['k']}.add_metadata('i', {op['value']})")
                else:
                    parts.append(f"r{op['k']}.{op['field']} {'+=' if 'delta' in op else '='} {op.get('delta', op.get('value'))}")
            elif op['op'] == 'show':
                parts.append(f"look at r{op['k']}")
            else:
                parts.append(f"r{op['j']} = concat([{', '.join('r%d' % k for k in op['ks'])}], axis='{op['dim']}')")
        return s + '; '.join(parts)


SPEC = C11()
