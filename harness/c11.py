"""C11 — annotated arrays (PipelineData) keep time base, channel labels and metadata aligned.

Model: lean/PsiModel/PData.lean (driver `pdata`).  The same register program
(`new`, `get`, `fin`, `set`, `concat`) is run on the Lean model and on the real
`psiaudio.pipeline.PipelineData` / `concat`; canonical result lines are diffed.
The oracle states the property element by element on the implementation's results:
every sample of an indexing result must carry the time stamp, channel label and
metadata entry it had in the source array (source coordinates are obtained from plain
NumPy on coordinate grids), label counts must equal the axis lengths, split + concat
must restore the array, altered pieces must be refused, arithmetic keeps annotations.
"""
import copy
import itertools
import os
from fractions import Fraction

import numpy as np

from .framework import Spec

LABELS = ['a', 'b', 'c', 'd', 'e', 'f']
FULL = ['s', None, None, None]


# --------------------------------------------------------------------------
# encoding of index expressions
# --------------------------------------------------------------------------

def enc_item(it):
    k = it[0]
    if k == 'i':
        return f'i{it[1]}'
    if k == 's':
        return 's' + ':'.join('_' if v is None else str(v) for v in it[1:4])
    if k in 'LA':
        return k + ','.join(str(v) for v in it[1])
    if k in 'BM':
        return k + ''.join('1' if v else '0' for v in it[1])
    return k


def enc_index(idx):
    if idx['t'] == 'one':
        return 'one:' + enc_item(idx['items'][0])
    return 'tup:' + ';'.join(enc_item(i) for i in idx['items'])


def py_item(it, rep=None):
    """`rep`: another spelling of the SAME index value (hardening item 1): slice bounds / list elements as NumPy
    scalars (`npint`), integer ndarrays of another integer dtype (`adt`).  Bare integer entries stay Python ints
    (a NumPy integer entry is refused loudly by normalize_index: TypeError / ValueError, see notes/C11.md)."""
    k = it[0]
    rep = rep or {}
    if k == 'i':
        # `npidx`: only generated once notes/C11_fix_4.diff is accepted (C11.NPIDX), see notes/C11.md §9
        return np.int64(it[1]) if rep.get('npidx') else int(it[1])
    if k == 's':
        if rep.get('npint'):
            return slice(*[v if v is None or abs(v) >= 2 ** 62 else np.int64(v) for v in it[1:4]])
        return slice(it[1], it[2], it[3])
    if k == 'L':
        return [np.int64(v) for v in it[1]] if rep.get('npint') else [int(v) for v in it[1]]
    if k == 'B':
        return [np.bool_(v) for v in it[1]] if rep.get('npint') else [bool(v) for v in it[1]]
    if k == 'A':
        dt = rep.get('adt')
        if dt and (not dt.startswith('u') or all(v >= 0 for v in it[1])):
            return np.array(it[1], dtype=dt)
        return np.array(it[1], dtype=np.int64)
    if k == 'M':
        return np.array([bool(v) for v in it[1]], dtype=bool)
    if k == 'n':
        return np.newaxis
    return Ellipsis


def py_index(idx, rep=None):
    if idx['t'] == 'one':
        return py_item(idx['items'][0], rep)
    return tuple(py_item(i, rep) for i in idx['items'])


def same_index(a, b):
    """index objects equal in type and value (the library must not modify the index it was given)."""
    if type(a) is not type(b):
        return False
    if isinstance(a, tuple) or isinstance(a, list):
        return len(a) == len(b) and all(same_index(x, y) for x, y in zip(a, b))
    if isinstance(a, np.ndarray):
        return a.dtype == b.dtype and a.shape == b.shape and bool(np.all(a == b))
    if isinstance(a, slice):
        return (a.start, a.stop, a.step) == (b.start, b.stop, b.step)
    return a is b or a == b


def show_index(idx):
    def s(it):
        k = it[0]
        if k == 'i':
            return str(it[1])
        if k == 's':
            a, b, c = it[1:4]
            r = ('' if a is None else str(a)) + ':' + ('' if b is None else str(b))
            return r + ('' if c is None else ':' + str(c))
        if k == 'L':
            return str(list(it[1]))
        if k == 'B':
            return str([bool(v) for v in it[1]])
        if k == 'A':
            return f'np.array({list(it[1])}, dtype=int)'
        if k == 'M':
            return f'np.array({[bool(v) for v in it[1]]}, dtype=bool)'
        return 'np.newaxis' if k == 'n' else '...'
    body = ', '.join(s(i) for i in idx['items'])
    return f'[{body}]' if idx['t'] == 'one' or len(idx['items']) != 1 else f'[{body},]'


def is_fancy(it):
    return it[0] in 'LBAM'


def ref_axis_items(items, nd):
    """Entry applied to each source axis (reference expansion of Ellipsis), or None."""
    cons = [it for it in items if it[0] not in 'ne']
    if len(cons) > nd or sum(1 for it in items if it[0] == 'e') > 1:
        return None
    fill = [FULL] * (nd - len(cons))
    out, seen = [], False
    for it in items:
        if it[0] == 'e':
            out.extend(fill)
            seen = True
        else:
            out.append(it)
    if not seen:
        out.extend(fill)
    return [it for it in out if it[0] != 'n']


def canonical_after(nd, idx):
    """Conservative: is the result again an (epoch, channel, time)-suffix array the chain may go on with?"""
    items = idx['items']
    per = ref_axis_items(items, nd)
    if per is None or not per or per[-1][0] != 's':
        return False
    if sum(1 for it in items if is_fancy(it)) > 1:
        return False
    nnew = sum(1 for it in items if it[0] == 'n')
    if nnew:
        # only leading new axes
        if any(it[0] == 'n' for it in items[nnew:]) or nd + nnew > 3:
            return False
        if any(it[0] == 'i' for it in items):
            return False
    # integers only on a prefix of the axes
    kinds = [it[0] for it in per]
    ni = sum(1 for k in kinds if k == 'i')
    if any(k != 'i' for k in kinds[:ni]):
        return False
    return True


# --------------------------------------------------------------------------
# canonical lines
# --------------------------------------------------------------------------

def enc_ch(ch):
    lab = lambda x: '~' if x is None else str(x)
    if isinstance(ch, list):
        return 'l:' + (','.join(lab(x) for x in ch) if ch else '-')
    return 's:' + lab(ch)


def enc_md(md):
    if isinstance(md, list):
        return 'l:' + (','.join(str(x) for x in md) if md else '-')
    return 's:' + str(md)


# metadata values need not be plain numbers or strings: a multi-element array (per-channel gains) and an object without
# __eq__ compare equal only by IDENTITY. `mdobj` cases carry both in every metadata dict (the very same two objects), so
# that pieces of one array stay concatenable only as long as slicing / copying hands the values on unchanged.
GAIN = np.array([1.0, 2.5])


class _Tag:
    pass


TAG = _Tag()


def mkmd_for(rep):
    if rep.get('mdobj'):
        one = lambda v: {'i': v, 'gain': GAIN, 'tag': TAG}
    else:
        one = lambda v: {'i': v}
    return lambda m: [one(v) for v in m] if isinstance(m, list) else one(m)


def md_id(m):
    if isinstance(m, dict) and set(m) == {'i'}:
        return int(m['i'])
    if isinstance(m, dict) and set(m) == {'i', 'gain', 'tag'} and m['gain'] is GAIN and m['tag'] is TAG:
        return int(m['i'])
    return repr(m).replace(' ', '')


def frac(fr):
    return f'{fr.numerator}/{fr.denominator}'


def ilist(l):
    return ','.join(str(int(v)) for v in l) if len(l) else '-'


def canon_pd(a, data=True):
    """Canonical line of a real PipelineData."""
    fs = Fraction(float(a.fs))
    ts = []
    tarr = np.asarray(a.t, dtype=float)
    P_, Q_ = fs.numerator, fs.denominator
    if tarr.size > 256 and fs > 0 and np.all(np.isfinite(tarr)) and float(np.max(np.abs(tarr))) * float(fs) < 2.0 ** 52:
        # long arrays: the same test vectorised.  m and fs are exact binary64 numbers, so the float quotient m / fs is the
        # correct rounding of the exact rational m / fs, i.e. float(Fraction(m) / fs)
        import math
        m_arr = np.rint(tarr * float(fs))
        good = (m_arr / float(fs)) == tarr
        for tj, m, ok in zip(tarr.tolist(), m_arr.astype(np.int64).tolist(), good.tolist()):
            if ok:
                num = m * Q_
                g = math.gcd(num, P_)
                ts.append(f'{num // g}/{P_ // g}')
            else:
                ts.append(repr(tj))
    else:
        for tj in tarr.tolist():
            m = round(Fraction(tj) * fs)
            r = Fraction(m) / fs
            ts.append(frac(r) if float(r) == tj else repr(tj))
    ch = a.channel
    if isinstance(ch, (list, tuple)):
        ch = [None if c is None else str(c) for c in ch]
    elif ch is not None:
        ch = str(ch)
    md = a.metadata
    md = [md_id(m) for m in md] if isinstance(md, list) else md_id(md)
    nep = a.n_epochs
    d = ilist(np.asarray(a).ravel().tolist()) if data else '*'
    return (f"arr shape={ilist(a.shape)} s0={int(a.s0)} fs={frac(fs)} ch={enc_ch(ch)} md={enc_md(md)} "
            f"nch={int(a.n_channels)} nep={'-' if nep is None else int(nep)} t={','.join(ts) if ts else '-'} data={d}")


def _frac_of(x):
    a, sep, b = x.partition('/')
    if sep:
        try:
            return Fraction(int(a), int(b))
        except ValueError:
            pass
    return Fraction(x)


def parse_line(line):
    """arr line -> dict (oracle side)."""
    if not line.startswith('arr '):
        return None
    f = dict(p.split('=', 1) for p in line[4:].split(' '))
    nums = lambda s: [] if s == '-' else [int(v) for v in s.split(',')]
    lab = lambda s: None if s == '~' else s

    def ch(s):
        if s.startswith('l:'):
            return [] if s[2:] == '-' else [lab(x) for x in s[2:].split(',')]
        return lab(s[2:])

    def md(s):
        if s.startswith('l:'):
            return [] if s[2:] == '-' else [x for x in s[2:].split(',')]
        return s[2:]
    return {'shape': nums(f['shape']), 's0': int(f['s0']), 'fs': Fraction(f['fs']), 'ch': ch(f['ch']),
            'md': md(f['md']), 't': [] if f['t'] == '-' else [_frac_of(x) for x in f['t'].split(',')],
            'data': None if f['data'] == '*' else nums(f['data'])}


# --------------------------------------------------------------------------
# the property, on implementation outputs
# --------------------------------------------------------------------------

def oracle_get(pre, idx, line):
    items = idx['items']
    nd = len(pre['shape'])
    per = ref_axis_items(items, nd)
    what = 'x' + show_index(idx)
    if line.startswith('err '):
        if per is not None and not any(it[0] == 'n' for it in items) and all(it == FULL for it in per[:-1]) \
                and per[-1][0] == 's' and (per[-1][3] is None or per[-1][3] >= 1):
            return f'{what}: a plain time slice raised {line[4:]}'
        # "integer, slice, list and boolean indexing of the channel or epoch axis SELECTS the matching labels": an
        # expression NumPy accepts, made of slices (step >= 1), integers and at most one list / mask on the channel or
        # epoch axis (ndarrays only as the bare index: inside a tuple the code refuses them loudly, see notes), with
        # a slice on the time axis, must not be refused.
        if per is not None and nd >= 2 and not any(it[0] == 'n' for it in items) and per[-1][0] == 's' \
                and all(it[0] != 's' or it[3] is None or it[3] >= 1 for it in per) \
                and sum(1 for it in items if is_fancy(it)) <= 1 \
                and all(it[0] in 'siLBe' or (it[0] in 'AM' and idx['t'] == 'one') for it in items):
            try:
                np.empty(tuple(pre['shape']))[py_index(idx)]
            except Exception:
                return None
            return f'{what}: NumPy selects these rows, the annotated array raised {line[4:]}'
        return None
    if line.startswith('scalar'):
        return None
    if per is None or per[-1][0] != 's':
        return None      # int / list / mask on the TIME axis: outside the claim (only slices of the time axis are)
    post = parse_line(line)
    if post is None:
        return f'{what}: unparsable result {line[:80]}'
    pyidx = py_index(idx)
    grids = np.indices(tuple(pre['shape']))
    try:
        src = [g[pyidx] for g in grids]
    except Exception:
        return None
    shape = list(src[0].shape)
    if shape != post['shape']:
        return f"{what}: result shape {post['shape']} but NumPy selects {shape}"
    if post['data'] is not None and pre['data'] is not None:
        want = np.array(pre['data'], dtype=np.int64).reshape(pre['shape'])[pyidx].ravel().tolist()
        if want != post['data']:
            return f'{what}: data differ from NumPy selection'
    rnd = len(shape)
    nfancy = sum(1 for it in items if is_fancy(it))
    # ---- counts = axis lengths
    if isinstance(post['ch'], list):
        if rnd < 2:
            return f"{what}: channel is a list {post['ch']} on a 1-D result"
        if len(post['ch']) != shape[-2]:
            return f"{what}: {len(post['ch'])} channel labels {post['ch']} for an axis of length {shape[-2]} (shape {shape})"
    md_axis = None
    if isinstance(post['md'], list):
        if rnd < 2:
            return f"{what}: metadata is a list on a 1-D result"
        md_axis = -3 if rnd >= 3 else -2
        if len(post['md']) != shape[md_axis]:
            return f"{what}: {len(post['md'])} metadata entries {post['md']} for an axis of length {shape[md_axis]} (shape {shape})"

    def along(values, axis):
        """values laid along `axis` of the result, broadcast to the result shape."""
        sh = [1] * rnd
        sh[axis] = len(values)
        arr = np.empty(len(values), dtype=object)
        for i, v in enumerate(values):
            arr[i] = v
        return np.broadcast_to(arr.reshape(sh), shape)

    def pick(values, coords):
        arr = np.empty(len(values), dtype=object)
        for i, v in enumerate(values):
            arr[i] = v
        return arr[coords]

    # ---- channel labels
    if nd >= 2:
        c_ax = nd - 2
        if not isinstance(pre['ch'], list):
            return None
        have = pick(pre['ch'], src[c_ax])          # label every result element had in the source
        if isinstance(post['ch'], list):
            claimed = along(post['ch'], -2)
            if not np.array_equal(have, claimed):
                return f"{what}: channel labels {post['ch']} do not match the selected rows (source labels {pre['ch']})"
        elif have.size and not np.all(have == post['ch']):
            return f"{what}: channel label {post['ch']!r} but the samples come from {sorted(set(map(str, have.ravel())))}"
        if nfancy <= 1 and not any(it[0] == 'n' for it in items):
            it = per[c_ax]
            want = pick(pre['ch'], np.arange(len(pre['ch']))[py_item(it)])
            want = want.tolist() if isinstance(want, np.ndarray) else want
            if want != post['ch']:
                return f"{what}: channel {post['ch']} but this index selects {want} from {pre['ch']}"
    else:
        got = post['ch'] if isinstance(post['ch'], list) else [post['ch']]
        if any(g != pre['ch'] for g in got):
            return f"{what}: channel {post['ch']} from a 1-D array labelled {pre['ch']!r}"
    # ---- metadata
    if nd >= 3:
        e_ax = nd - 3
        if not isinstance(pre['md'], list):
            return None
        have = pick(pre['md'], src[e_ax])
        if isinstance(post['md'], list):
            claimed = along(post['md'], md_axis)
            if not np.array_equal(have, claimed):
                return f"{what}: metadata {post['md']} do not match the selected epochs (source {pre['md']})"
        elif have.size and not np.all(have == post['md']):
            return f"{what}: metadata {post['md']!r} but the samples come from epochs {sorted(set(have.ravel()))}"
        if nfancy <= 1 and not any(it[0] == 'n' for it in items):
            it = per[e_ax]
            want = pick(pre['md'], np.arange(len(pre['md']))[py_item(it)])
            want = want.tolist() if isinstance(want, np.ndarray) else want
            if want != post['md']:
                return f"{what}: metadata {post['md']} but this index selects {want} from {pre['md']}"
    else:
        got = post['md'] if isinstance(post['md'], list) else [post['md']]
        if any(g != pre['md'] for g in got):
            return f"{what}: metadata {post['md']} from an array with metadata {pre['md']!r}"
    # ---- time base
    tit = per[-1]
    if tit[0] == 's' and (tit[3] is None or tit[3] >= 1):
        step = 1 if tit[3] is None else tit[3]
        if post['fs'] != pre['fs'] / step:
            return f"{what}: fs {post['fs']} after step {step} on fs {pre['fs']}"
        if step == 1:
            want = pre['t'][slice(tit[1], tit[2])]
            if post['t'] != want:
                return (f"{what}: time axis of the slice starts at {post['t'][:1]} (s0={post['s0']}), "
                        f"the slice of the time axis at {want[:1]} (source s0={pre['s0']}, n={len(pre['t'])})")
            if len(pre['t']):
                have = pick(pre['t'], src[-1])
                if have.size and not np.array_equal(have, along(post['t'], -1)):
                    return f"{what}: samples do not keep their time stamps"
    return None


def same_annot(a, b, data=True):
    keys = ['shape', 's0', 'fs', 'ch', 'md', 't'] + (['data'] if data else [])
    return [k for k in keys if a[k] != b[k]]


def _ipadd(a):
    b = a.copy()
    b += 1
    return b


FIN = {
    'add': lambda a: a + 1, 'mul': lambda a: a * 2.0, 'neg': lambda a: -a, 'copy': lambda a: a.copy(),
    'astype': lambda a: a.astype('int'), 'gt': lambda a: a > 3, 'abs': lambda a: np.abs(a), 'self': lambda a: a + a,
    # hardening: further arithmetic / copies / casts
    'astype32': lambda a: a.astype(np.float32), 'astypebool': lambda a: a.astype(bool), 'astypekw': lambda a: a.astype(dtype='int16', copy=True),
    'view': lambda a: a.view(), 'div': lambda a: a / 2, 'radd': lambda a: np.ones(a.shape[-1]) + a, 'rsub': lambda a: 1 - a,
    'pycopy': lambda a: copy.copy(a), 'deepcopy': lambda a: copy.deepcopy(a), 'ipadd': _ipadd, 'clip': lambda a: np.clip(a, 0, 1),
    'npscalar': lambda a: a * np.float32(2), 'square': lambda a: a ** 2,
}
FIN_OLD = ['add', 'mul', 'neg', 'copy', 'astype', 'gt', 'abs', 'self']


class C11(Spec):
    PROP = 'C11'
    MODEL = 'pdata'
    PROOF_MODULES = ['PsiProofs.C11']
    DESIGN_REF = 'DESIGN.md §6 C11'
    TRUST = [
        'modelled, not verified: NumPy indexing (basic indexing, one broadcast group of advanced indices) and '
        'np.concatenate — lean/PsiModel/PData.lean npGetitem/npConcat say which source sample sits where; every check '
        'compares this with NumPy itself on index-valued arrays',
        'Python list indexing / slice.indices semantics transcribed from the language reference (sliceIndices)',
        'float sampling rates: harness uses rates 27*2^k so that every fs/step in a case is exact in binary64; '
        '.t is compared as the exact rational each float is the correct rounding of',
    ]
    ASSUMPTIONS = [
        'arrays are built by PipelineData(...) with a channel list (>= 2-D) / metadata list (3-D) of the axis length',
        'the first-sample index after a strided slice is excluded from the claim (pinned by the existing tests)',
        'list/mask indexing of the time axis is outside the claim (only slices of the time axis are)',
    ]
    RULE = ('register programs over 1-/2-/3-D annotated arrays: (i) every slice start/stop in [-B,B] u {None} x step '
            'in {None,1,2,3} on the time, channel and epoch axis of arrays with that axis of length 0..N, in every '
            'syntactic position (bare, after Ellipsis, in a full tuple); (ii) every int in [-N-2,N+1], every int list of '
            'length <= 2 and every boolean mask of length N-1..N+1 as list and ndarray on the channel and epoch axes; '
            '(iii) split at every cut in [-N-3,N+3] (+ two-cut splits) and concat on each axis, altered pieces; '
            '(iv) seeded random chains of 1-3 index expressions from the whole grammar (Ellipsis, newaxis, several '
            'lists) with arithmetic/copy/astype in between; (v) hardening: the same arguments spelled as NumPy scalars / '
            'other integer dtypes / data dtypes and memory layouts / tuple labels / positional, keyword, default '
            'constructor and concat arguments; slice bounds and steps up to 10^20 / 2^40, 2^16+3 samples, 3000 channels, '
            '2500 epochs, s0 beyond 2^31 and 2^45, 300 pieces; the same expression twice and the source looked at '
            'afterwards; split-concat-split-concat, nested and single-piece concats; label / metadata lists overwritten in '
            'place by the caller (other arrays must keep theirs); two arrays differing in one parameter. Non-trivial = the case reaches a result array whose shape '
            'or annotations differ from the source, or an exception; distinct = distinct case hash.')
    exhaustive_note = {
        'quick': 'slices: all start/stop in [-5,5] u {None}, step in {None,1,2,3}, axis length 0..3, each axis/position; '
                 'ints, int lists (len<=2), bool masks: all, axis length 1..3; split/concat: every cut in [-n-3,n+3], n<=3',
        'thorough': 'slices: all start/stop in [-7,7] u {None}, step in {None,1,2,3,4}, axis length 0..4, each axis/position; '
                    'ints, int lists (len<=2), bool masks: all, axis length 1..4; split/concat: every cut in [-n-3,n+3], n<=4, all two-cut splits',
    }
    PARALLEL = 16

    # ---- arrays ---------------------------------------------------------
    @staticmethod
    def mk_arr(shape, s0=0, fs=(1728, 1), base=0, none_labels=False, md0=0):
        nd = len(shape)
        if nd == 1:
            ch = None if none_labels else None
        else:
            ch = [None] * shape[-2] if none_labels else [LABELS[i % 6] + ('' if i < 6 else str(i)) for i in range(shape[-2])]
        md = [md0 + i for i in range(shape[0])] if nd == 3 else md0
        return {'shape': list(shape), 'base': base, 's0': s0, 'fs': list(fs), 'ch': ch, 'md': md}

    def rand_arr(self, rng, nd=None, maxn=4):
        nd = nd or rng.choice([1, 2, 2, 3, 3])
        shape = [rng.randint(1, maxn) for _ in range(nd)]
        if rng.random() < 0.1:
            shape[rng.randrange(nd)] = 0
        fs = (27 * 2 ** rng.randint(0, 10), rng.choice([1, 1, 1, 2, 4]))
        a = self.mk_arr(shape, s0=rng.choice([0, 0, 5, -7, -3, 100, rng.randint(-50, 50)]), fs=fs,
                        base=rng.choice([0, 0, 100]), none_labels=rng.random() < 0.1, md0=rng.choice([0, 10]))
        if nd == 1 and rng.random() < 0.3:
            a['ch'] = rng.choice(LABELS)
        return a

    # ---- index expressions ----------------------------------------------
    def rand_slice(self, rng, n, unit=None):
        def bound():
            r = rng.random()
            if r < 0.3:
                return None
            return rng.randint(-n - 3, n + 3)
        step = rng.choice([None, None, 1, 1, 2, 3, 4]) if unit is None else rng.choice([None, 1])
        return ['s', bound(), bound(), step]

    def rand_item(self, rng, n, axis_is_time):
        r = rng.random()
        if r < 0.45 or (axis_is_time and r < 0.85):
            return self.rand_slice(rng, n)
        if r < 0.6:
            return ['i', rng.randint(-n - 1, n)]
        k = rng.choice('LBAM')
        if k in 'LA':
            m = rng.randint(0, 3)
            lo, hi = -n - (rng.random() < 0.1), n - 1 + (rng.random() < 0.1)
            return [k, [rng.randint(lo, max(lo, hi)) for _ in range(m)]]
        m = n if rng.random() < 0.9 else max(0, n + rng.choice([-1, 1]))
        if m == 0 and n > 0:
            m = n
        p = rng.choice([0.0, 0.5, 0.5, 1.0])
        return [k, [1 if rng.random() < p else 0 for _ in range(m)]]

    def rand_index(self, rng, shape):
        nd = len(shape)
        r = rng.random()
        if r < 0.25:
            it = rng.choice([['n'], ['e'], self.rand_item(rng, shape[0], nd == 1), self.rand_item(rng, shape[0], nd == 1)])
            if it[0] == 'M' and not it[1] and shape[0]:
                it = ['A', []]
            return {'t': 'one', 'items': [it]}
        k = rng.choice([nd, nd, nd, nd - 1, nd + 1]) if r < 0.9 else rng.randint(0, nd + 1)
        k = max(0, k)
        items = []
        if rng.random() < 0.5 and k < nd:
            # Ellipsis form: some leading entries, ..., trailing entries
            lead = rng.randint(0, k)
            items = [self.rand_item(rng, shape[i], False) for i in range(lead)] + [['e']] + \
                    [self.rand_item(rng, shape[nd - (k - lead) + i], nd - (k - lead) + i == nd - 1) for i in range(k - lead)]
        else:
            items = [self.rand_item(rng, shape[min(i, nd - 1)], i == nd - 1) for i in range(k)]
            if rng.random() < 0.15:
                items.insert(rng.randint(0, len(items)), ['e'])
        while rng.random() < 0.12:
            items.insert(0 if rng.random() < 0.7 else rng.randint(0, len(items)), ['n'])
        # keep at most one list most of the time (several lists are paired element-wise by NumPy)
        if rng.random() < 0.85:
            seen = False
            for j, it in enumerate(items):
                if is_fancy(it):
                    if seen:
                        items[j] = FULL
                    seen = True
        # several lists of which one selects nothing: NumPy then skips the bounds checks of the others (a quirk)
        fz = [j for j, it in enumerate(items) if is_fancy(it)]
        if len(fz) >= 2 and any(not any(items[j][1]) if items[j][0] in 'BM' else not items[j][1] for j in fz):
            for j in fz[1:]:
                items[j] = FULL
        # NumPy accepts an EMPTY boolean ndarray on any axis (a quirk): use the empty integer array instead
        items = [['A', []] if it[0] == 'M' and not it[1] else it for it in items]
        return {'t': 'tup', 'items': items}

    @staticmethod
    def ref_shape(shape, idx):
        try:
            return list(np.empty(shape)[py_index(idx)].shape)
        except Exception:
            return None

    # ---- cases ----------------------------------------------------------
    REPS = {
        'npint': [True], 'adt': ['int32', 'uint8', 'int16', 'intp', 'uint64'],
        'dtype': ['float32', 'int16', 'int32', 'int64', 'uint16'], 'order': ['F', 'strided', 'rev', 'list'],
        'chtuple': [True], 'fsrep': ['int', 'np64', 'np32'], 's0rep': ['np64'], 'ctor': ['pos', 'kw', 'defaults'],
        'axis': ['name', 'default', 'pos'], 'seq': ['tuple'],
    }

    # bare integer entries as NumPy integers (x[np.int64(1)], x[:, np.int64(0)]): refused loudly by the code as found
    # (TypeError / ValueError) although NumPy accepts them; generated only when this is switched on (after fix 4).
    NPIDX = True        # NumPy-integer index entries: repaired by fix 167680b, demanded since

    def rand_rep(self, rng, c):
        """another spelling of the same arguments (hardening item 1/2); the model lines do not change."""
        keys = sorted(self.REPS)
        rep = {}
        for k in rng.sample(keys, rng.choice([1, 1, 2, 3, len(keys)])):
            rep[k] = rng.choice(self.REPS[k])
        if self.NPIDX and rng.random() < 0.5:
            rep['npidx'] = True
        if 'chtuple' in rep and any((o['op'] == 'set' and o.get('inplace')) or
                                    (o['op'] == 'get' and any(it[0] == 'n' for it in o['idx']['items'])) for o in c['ops']):
            # a tuple cannot be overwritten in place; with np.newaxis in the channel slot the code tests
            # `isinstance(channel, list)`, so a tuple takes another (equally refused) path: not the same value there
            del rep['chtuple']
        return rep

    def cases(self, rng, tier):
        frac_rep = 0.12 if tier == 'quick' else 0.2
        for c in self.base_cases(rng, tier):
            yield c
            if c['kind'] != 'scale' and rng.random() < frac_rep:
                cc = copy.deepcopy(c)
                cc['rep'] = self.rand_rep(rng, cc)
                cc['kind'] = 'repr:' + c['kind'].split('-')[0]
                yield cc
        for c in self.hardening_cases(rng, tier):
            yield c
            if c['kind'] != 'scale' and rng.random() < 0.5:
                cc = copy.deepcopy(c)
                cc['rep'] = self.rand_rep(rng, cc)
                cc['kind'] = 'repr:' + c['kind'].split('-')[0]
                yield cc
            if c['kind'] != 'scale' and any(op.get('op') == 'concat' for op in c['ops']) and rng.random() < 0.5:
                # the same history with metadata values that compare equal only by identity (see GAIN / TAG)
                cc = copy.deepcopy(c)
                cc['rep'] = dict(cc.get('rep') or {}, mdobj=True)
                cc['kind'] = 'mdobj'
                yield cc

    def hardening_cases(self, rng, tier):
        quick = tier == 'quick'
        get = lambda idx, k=0, j=1: {'op': 'get', 'k': k, 'j': j, 'idx': idx}
        tup = lambda *items: {'t': 'tup', 'items': [list(i) for i in items]}
        E_ = ['e']
        sl = lambda a=None, b=None, st=None: ['s', a, b, st]
        show = lambda k: {'op': 'show', 'k': k}

        # ---- item 3: scale.  Far beyond the usual sizes: 2^16 (+3) samples, thousands of channels / epochs,
        # first-sample indices beyond 2^31 and 2^53-ish, requests mixing tiny and huge bounds, hundreds of pieces.
        n = 2 ** 16 + 3
        big1 = self.mk_arr([n], s0=2 ** 31 - 2, fs=(27 * 2 ** 10, 1))
        yield {'kind': 'scale', 'arrs': [big1], 'ops': [
            get(tup(sl(n - 2)), 0, 1), get(tup(sl(-70000, 3)), 0, 2), get(tup(sl(65535, 65538)), 0, 3),
            get({'t': 'one', 'items': [sl(None, None, 2 ** 14)]}, 0, 4), get(tup(E_, sl(2 ** 40)), 0, 5),
            get(tup(sl(-2 ** 16 - 3, 2)), 0, 6), get(tup(sl(-2 ** 16 - 4, 2)), 0, 7), get(tup(sl(2 ** 16 + 2, 2 ** 16 + 9)), 0, 8)]}
        # (results of that size are quadratic in the Lean model: the full-size restore is done on 2^12 + 3 samples)
        mid = self.mk_arr([2 ** 12 + 3], s0=2 ** 31 - 2, fs=(27 * 2 ** 10, 1))
        yield {'kind': 'scale', 'arrs': [mid], 'ops': [
            get(tup(sl(1)), 0, 6), get(tup(sl(None, 1)), 0, 7), get(tup(sl(-5000, None)), 0, 8),
            {'op': 'concat', 'j': 30, 'dim': 'time', 'ks': [7, 6], 'expect': 'restore:0'}]}
        big2 = self.mk_arr([3, n // 3], s0=-(2 ** 33) - 5, fs=(27 * 2 ** 4, 1))
        yield {'kind': 'scale', 'arrs': [big2], 'ops': [
            get(tup(['L', [2, 0]], sl(-4, None)), 0, 1), get(tup(E_, sl(21000, 21847)), 0, 2),
            get(tup(sl(1, 2), sl(21844, None)), 0, 3)]}
        wide = self.mk_arr([3000, 2], s0=2 ** 45, fs=(27, 1))
        yield {'kind': 'scale', 'arrs': [wide], 'ops': [
            get(tup(sl(2990, 5000)), 0, 1), get(tup(['L', [2999, 0, -3000]]), 0, 2),
            get({'t': 'one', 'items': [['M', [1 if i % 1000 == 7 else 0 for i in range(3000)]]]}, 0, 3),
            get(tup(sl(None, 1500)), 0, 4), get(tup(sl(1500, None)), 0, 5),
            {'op': 'concat', 'j': 30, 'dim': 'channel', 'ks': [4, 5], 'expect': 'restore:0'}]}
        deep = self.mk_arr([2500, 1, 2], s0=0, fs=(27 * 64, 1))
        yield {'kind': 'scale', 'arrs': [deep], 'ops': [
            get({'t': 'one', 'items': [['B', [1 if i % 800 == 3 else 0 for i in range(2500)]]]}, 0, 1),
            get({'t': 'one', 'items': [['A', [2499, 1, -2500]]]}, 0, 2), get(tup(sl(-3, None), E_), 0, 3),
            get(tup(sl(None, 2499)), 0, 4), get(tup(sl(2499, None)), 0, 5),
            {'op': 'concat', 'j': 30, 'dim': 'epoch', 'ks': [4, 5], 'expect': 'restore:0'}]}
        # many pieces: every sample its own piece
        m = 300
        arr = self.mk_arr([2, m], s0=2 ** 31 - 150, fs=(27 * 8, 1))
        yield self.split_case(arr, 1, 'time', list(range(1, m)), None)

        # ---- item 4: slice bounds and steps far outside the array (still exact rates: steps 2^a * 3^(0|1))
        HUGE = [2 ** 31 - 1, 2 ** 31, 2 ** 32 + 1, 2 ** 63 - 1, 2 ** 63, 2 ** 64 + 3, 10 ** 20]
        STEPS = [6, 8, 12, 16, 1024, 2 ** 20, 3 * 2 ** 20, 2 ** 40]
        for nd in (1, 2, 3):
            for nt in (0, 1, 4):
                shape = [2, 2, nt][-nd:]
                for h in HUGE if not quick else rng.sample(HUGE, 3):
                    for a_, b_ in [(h, None), (-h, None), (None, h), (None, -h), (-h, h), (h, -h), (1, h), (-h, -1)]:
                        arr = self.mk_arr(shape, s0=rng.choice([-7, 0, 5, 2 ** 31]), fs=(27 * 64, 1))
                        idx = tup(E_, sl(a_, b_, rng.choice([None, 1, 1, 2]))) if rng.random() < 0.7 or nd > 1 else \
                            {'t': 'one', 'items': [sl(a_, b_)]}
                        yield {'kind': 'huge-bound', 'arrs': [arr], 'ops': [get(idx)]}
                    # the same bounds on the channel / epoch axis
                    if nd > 1:
                        arr = self.mk_arr([3] * nd, s0=5, fs=(27 * 64, 1))
                        yield {'kind': 'huge-bound', 'arrs': [arr], 'ops': [get({'t': 'one', 'items': [sl(-h, h)]}, 0, 1),
                                                                             get(tup(sl(1, h)), 0, 2), get(tup(sl(h, None), E_), 0, 3)]}
                for st in STEPS:
                    arr = self.mk_arr([2, 2, max(nt, 1) + 4][-nd:], s0=rng.choice([-7, 0, 5]), fs=(27 * 2 ** rng.randint(0, 10), rng.choice([1, 2, 4])))
                    yield {'kind': 'huge-step', 'arrs': [arr], 'ops': [get(tup(E_, sl(rng.choice([None, 0, 1, -2]), None, st)))]}
                    if nd > 1:
                        yield {'kind': 'huge-step', 'arrs': [arr], 'ops': [get({'t': 'one', 'items': [sl(None, None, st)]})]}
            # split at cuts far outside the array
            for h in HUGE[:2] + HUGE[-1:]:
                for cut in (h, -h):
                    for axis in range(nd):
                        dim = ['epoch', 'channel', 'time'][3 - nd + axis]
                        yield self.split_case(self.mk_arr([2] * nd, s0=5, fs=(432, 1)), axis, dim, [cut], None)

        # ---- item 5: histories.  The same array indexed twice (same result, source untouched), the source looked at
        # after a whole chain, split -> concat -> split elsewhere -> concat, the same pieces concatenated twice,
        # a concat of one piece, concat results concatenated further (nested).
        nrep = 400 if quick else 10000
        for _ in range(nrep):
            arr = self.rand_arr(rng)
            idx = self.rand_index(rng, arr['shape'])
            ops = [get(idx, 0, 1), get(copy.deepcopy(idx), 0, 2), show(0)]
            if self.ref_shape(arr['shape'], idx) and canonical_after(len(arr['shape']), idx):
                ops += [{'op': 'fin', 'k': 1, 'j': 3, 'how': rng.choice(sorted(FIN))}, show(1), show(0)]
            yield {'kind': 'repeat', 'arrs': [arr], 'ops': ops}
        nres = 300 if quick else 10000
        for _ in range(nres):
            arr = self.rand_arr(rng, maxn=6)
            nd = len(arr['shape'])
            axis = rng.randrange(nd)
            dim = ['epoch', 'channel', 'time'][3 - nd + axis]
            n = arr['shape'][axis]
            c = self.split_case(arr, axis, dim, sorted(rng.randint(0, n) for _ in range(rng.randint(0, 2))), None)
            ks = c['ops'][-1]['ks']
            how = rng.choice(['twice', 'resplit', 'nested', 'single'])
            if how == 'twice':
                c['ops'] += [{'op': 'concat', 'j': 31, 'dim': dim, 'ks': ks, 'expect': 'restore:0'}] + [show(k) for k in ks] + [show(0)]
            elif how == 'resplit':
                k2 = rng.randint(-n - 1, n + 1)
                lead = [FULL] * axis
                mk = lambda it: {'t': 'tup', 'items': ([E_] if dim == 'time' else lead) + [it]}
                c['ops'] += [get(mk(sl(None, k2)), 30, 40), get(mk(sl(k2, None)), 30, 41),
                             {'op': 'concat', 'j': 42, 'dim': dim, 'ks': [40, 41], 'expect': 'restore:0'}, show(30), show(0)]
            elif how == 'nested' and len(ks) >= 3:
                c['ops'][-1] = {'op': 'concat', 'j': 28, 'dim': dim, 'ks': ks[:2], 'expect': None}
                c['ops'] += [{'op': 'concat', 'j': 29, 'dim': dim, 'ks': ks[2:], 'expect': None},
                             {'op': 'concat', 'j': 30, 'dim': dim, 'ks': [28, 29], 'expect': 'restore:0'}]
            else:
                c['ops'] += [{'op': 'concat', 'j': 31, 'dim': dim, 'ks': [30], 'expect': 'restore:0'},
                             {'op': 'concat', 'j': 32, 'dim': dim, 'ks': [0], 'expect': 'restore:0'}]
            c['kind'] = 'history-' + how
            yield c

        # ---- item 6: the caller overwrites, in place, the label list / metadata list of one array; every other array
        # derived from the same data (parent, sibling, copy, concat result, concat input) keeps its annotations.
        derivs = [('slice', tup(E_, sl(None, 2))), ('full', tup(E_)), ('fullslice', {'t': 'one', 'items': [sl()]}),
                  ('list', None), ('strided', tup(E_, sl(None, None, 2)))]
        for nd in (2, 3):
            shape = [3, 2, 4][-nd:]
            fields = [('ch', ['zz'] * shape[-2])] + ([('md', [55] * shape[0])] if nd == 3 else [])
            for field, val in fields:
                for name, idx in derivs:
                    if idx is None:
                        idx = {'t': 'one', 'items': [['L', list(range(shape[0]))]]}
                    n1 = self.ref_shape(shape, idx)
                    v1 = ['zz'] * n1[-2] if field == 'ch' else [55] * n1[0]
                    for how in ('copy', 'add', 'astype', 'view', 'deepcopy'):
                        arr = self.mk_arr(shape, s0=5, fs=(432, 1), md0=3)
                        # derived array overwritten -> parent, a second derivation and a copy untouched
                        yield {'kind': 'isolation', 'arrs': [arr], 'ops': [
                            get(idx, 0, 1), get(copy.deepcopy(idx), 0, 2), {'op': 'fin', 'k': 0, 'j': 3, 'how': how},
                            {'op': 'set', 'k': 1, 'field': field, 'value': v1, 'inplace': True},
                            show(0), show(2), show(3)]}
                        # parent overwritten -> derived arrays untouched
                        yield {'kind': 'isolation', 'arrs': [arr], 'ops': [
                            get(idx, 0, 1), {'op': 'fin', 'k': 0, 'j': 3, 'how': how}, {'op': 'fin', 'k': 1, 'j': 4, 'how': how},
                            {'op': 'set', 'k': 0, 'field': field, 'value': val, 'inplace': True},
                            show(1), show(3), show(4)]}
                # concat result overwritten -> its inputs untouched and still restore the original; input overwritten ->
                # result untouched
                for axis in range(nd):
                    dim = ['epoch', 'channel', 'time'][3 - nd + axis]
                    arr = self.mk_arr(shape, s0=5, fs=(432, 1), md0=3)
                    c = self.split_case(arr, axis, dim, [1], None)
                    c['kind'] = 'isolation'
                    c['ops'] += [{'op': 'set', 'k': 30, 'field': field, 'value': val, 'inplace': True}, show(1), show(2), show(0),
                                 {'op': 'concat', 'j': 31, 'dim': dim, 'ks': [1, 2], 'expect': 'restore:0'}]
                    yield c
                    c = self.split_case(arr, axis, dim, [1], None)
                    c['kind'] = 'isolation'
                    sh1 = list(shape)
                    sh1[axis] = 1
                    v1 = ['zz'] * sh1[-2] if field == 'ch' else [55] * sh1[0]
                    c['ops'] += [{'op': 'set', 'k': 1, 'field': field, 'value': v1, 'inplace': True}, show(30), show(2), show(0)]
                    yield c

        # ---- item 1 (deterministic part): the select expressions with NumPy scalars as list elements / slice bounds and
        # integer ndarrays of every integer dtype; every constructor / concat spelling on a split + concat program
        for nd, axis in [(2, 0), (3, 1), (3, 0)]:
            shape = [2] * nd
            shape[axis] = 3
            shape[-1] = 3
            its = [['B', [1, 0, 1]], ['B', [0, 0, 1]], ['B', [1, 1, 1]], ['B', [0, 0, 0]], ['L', [2, 0]], ['L', [-1]], ['L', [1, 1, 2]],
                   ['s', 1, None, None], ['s', -2, 5, 2]]
            reps = [{'npint': True}]
            for it in its + [['A', [2, 0]], ['A', [1]], ['A', []], ['A', [0, 1, 2]]]:
                if it[0] == 'A':
                    reps = [{'adt': dt} for dt in self.REPS['adt']]
                for p_ in self.positions(nd, axis, it):
                    for rep in reps:
                        yield {'kind': 'repr-fixed', 'arrs': [self.mk_arr(shape, s0=5, fs=(27 * 64, 1))], 'ops': [get(p_)], 'rep': dict(rep)}
        for nd in (1, 2, 3):
            for axis in range(nd):
                dim = ['epoch', 'channel', 'time'][3 - nd + axis]
                for key in sorted(self.REPS):
                    for val in self.REPS[key]:
                        c = self.split_case(self.mk_arr([2, 3, 4][-nd:], s0=rng.choice([0, 5, -7]), fs=(432, 1)), axis, dim, [1, 2], None)
                        c['ops'] += [show(0), show(1)]
                        c['kind'], c['rep'] = 'repr-fixed', {key: val}
                        yield c

        # ---- item 7: two arrays that differ in exactly one parameter, built one after the other, same expressions
        npair = 300 if quick else 8000
        for _ in range(npair):
            a = self.rand_arr(rng)
            b = copy.deepcopy(a)
            nd = len(a['shape'])
            what = rng.choice(['s0', 'fs', 'ch', 'md', 'base'])
            if what == 's0':
                b['s0'] = a['s0'] + rng.choice([1, -1, 1000])
            elif what == 'fs':
                b['fs'] = [a['fs'][0] * 2, a['fs'][1]]
            elif what == 'ch':
                b['ch'] = (None if a['ch'] else 'q') if nd == 1 else [(x or 'n') + 'x' for x in a['ch']]
            elif what == 'md':
                b['md'] = a['md'] + 20 if nd < 3 else [v + 20 for v in a['md']]
            else:
                b['base'] = a['base'] + 50
            idx = self.rand_index(rng, a['shape'])
            ops = [get(idx, 0, 2), get(copy.deepcopy(idx), 1, 3), show(0), show(1)]
            if rng.random() < 0.5:
                ops.insert(2, {'op': 'fin', 'k': 1, 'j': 5, 'how': rng.choice(sorted(FIN))})
            yield {'kind': 'pair', 'arrs': [a, b], 'ops': ops}

    @staticmethod
    def positions(nd, axis, it):
        """the syntactic positions in which `it` can address `axis` of an nd-array."""
        out = []

        lead = [FULL] * axis
        if axis == 0:
            out.append({'t': 'one', 'items': [it]})
        out.append({'t': 'tup', 'items': lead + [it]})
        out.append({'t': 'tup', 'items': lead + [it] + [FULL] * (nd - axis - 1)})
        out.append({'t': 'tup', 'items': [['e'], it] + [FULL] * (nd - axis - 1)})
        if axis < nd - 1:
            out.append({'t': 'tup', 'items': lead + [it, ['e']]})
        seen, res = set(), []
        for o in out:
            key = enc_index(o)
            if key not in seen:
                seen.add(key)
                res.append(o)
        return res

    def base_cases(self, rng, tier):
        quick = tier == 'quick'
        N = 3 if quick else 4
        B = 5 if quick else 7
        steps = [None, 1, 2, 3] if quick else [None, 1, 2, 3, 4]
        bounds = [None] + list(range(-B, B + 1))
        get = lambda idx, k=0, j=1: {'op': 'get', 'k': k, 'j': j, 'idx': idx}

        positions = self.positions

        # (i) slices on every axis, exhaustive small scope
        s0s = [-7, 0, 5]
        combos = [(1, 0), (2, 1), (2, 0), (3, 2), (3, 1), (3, 0)]
        ci = 0
        for nd, axis in combos:
            for n in range(0, N + 1):
                shape = [2] * nd
                shape[axis] = n
                if nd == 3 and axis != 0:
                    shape[0] = 3
                for a in bounds:
                    for b in bounds:
                        for st in steps:
                            it = ['s', a, b, st]
                            pos = positions(nd, axis, it)
                            ci += 1
                            arr = self.mk_arr(shape, s0=s0s[ci % 3], fs=(27 * 64, 1))
                            # one position per case (rotating), all positions for the boundary-relevant starts
                            chosen = pos if (a is not None and abs(a) >= n) or quick is False and n <= 2 else [pos[ci % len(pos)]]
                            for p in chosen:
                                yield {'kind': f'slice-ax{axis - nd}', 'arrs': [arr], 'ops': [get(p)]}

        # (ii) ints, int lists, masks on the channel and epoch axes
        for nd, axis in [(2, 0), (3, 1), (3, 0)]:
            for n in range(1, N + 1):
                shape = [2] * nd
                shape[axis] = n
                shape[-1] = 3
                its = [['i', v] for v in range(-n - 2, n + 2)]
                for k in 'LA':
                    its.append([k, []])
                    its += [[k, [v]] for v in range(-n - 1, n + 1)]
                    its += [[k, [v, w]] for v in range(-n, n) for w in range(-n, n)]
                    its.append([k, list(range(n))])
                    its.append([k, list(range(1, n + 1))])      # no zero entry, one out of range
                    its.append([k, list(range(1, n))])          # no zero entry, in range
                    its.append([k, [n - 1] * 3])
                for k in 'BM':
                    for m in (n - 1, n, n + 1):
                        if m == 0 and k == 'M':
                            continue    # NumPy accepts an EMPTY boolean array on any axis (a quirk): not a mask of this axis
                        its += [[k, list(bits)] for bits in itertools.product([0, 1], repeat=m)]
                for it in its:
                    for p in positions(nd, axis, it):
                        ci += 1
                        arr = self.mk_arr(shape, s0=s0s[ci % 3], fs=(27 * 64, 1), none_labels=(ci % 17 == 0))
                        yield {'kind': f'select-ax{axis - nd}', 'arrs': [arr], 'ops': [get(p)]}

        # (iii) split + concat
        for nd in (1, 2, 3):
            for axis in range(nd):
                dim = ['epoch', 'channel', 'time'][3 - nd + axis]
                for n in range(0, N + 1):
                    shape = [2] * nd
                    shape[axis] = n
                    cuts1 = [[c] for c in range(-n - 3, n + 4)]
                    cuts2 = [[c, d] for c in range(0, n + 1) for d in range(c, n + 1)] if (not quick or n <= 2) else []
                    for cuts in cuts1 + cuts2:
                        ci += 1
                        arr = self.mk_arr(shape, s0=s0s[ci % 3], fs=(27 * 8, 1))
                        yield self.split_case(arr, axis, dim, cuts, None)
                        if n >= 1 and len(cuts) == 1 and 0 < cuts[0] < n + 1:
                            for alter in self.alterations(dim, nd):
                                yield self.split_case(arr, axis, dim, cuts, alter)

        # stack 1-D / 2-D arrays into epochs, 1-D into channels
        for nd, dim in [(1, 'epoch'), (2, 'epoch'), (1, 'channel')]:
            for k in (1, 2, 3):
                shape = [2, 3][-nd:]
                arrs = [self.mk_arr(shape, s0=4, fs=(432, 1), base=10 * i, md0=(i if dim == 'epoch' else 0)) for i in range(k)]
                if nd == 1 and dim == 'channel':
                    for i, a in enumerate(arrs):
                        a['ch'] = LABELS[i]
                yield {'kind': 'stack', 'arrs': arrs,
                       'ops': [{'op': 'concat', 'j': 9, 'dim': dim, 'ks': list(range(k)), 'expect': None}]}

        # the expression pinned by tests/pipeline/test_pipeline_data.py::test_pipeline_data_3d (known finding C11-KF1)
        yield {'kind': 'two-lists', 'arrs': [self.mk_arr([3, 2, 4], s0=0, fs=(1728, 1))],
               'ops': [get({'t': 'tup', 'items': [['L', [0, 2]], ['L', [0]]]})]}

        # (iv) random chains over the whole grammar
        nchain = 2500 if quick else 250000
        for _ in range(nchain):
            arr = self.rand_arr(rng)
            shape = list(arr['shape'])
            ops, k = [], 0
            for _step in range(rng.randint(1, 3)):
                idx = self.rand_index(rng, shape)
                ops.append(get(idx, k, k + 1))
                new = self.ref_shape(shape, idx)
                if new is None or not canonical_after(len(shape), idx) or not new:
                    break
                k += 1
                shape = new
                if rng.random() < 0.25:
                    ops.append({'op': 'fin', 'k': k, 'j': k + 1, 'how': rng.choice(FIN_OLD if rng.random() < 0.5 else sorted(FIN))})
                    k += 1
            if rng.random() < 0.3:
                ops.append({'op': 'show', 'k': 0})
            yield {'kind': 'chain', 'arrs': [arr], 'ops': ops}

        # random slice-then-concat programs (pieces from unit-step cuts, possibly nested)
        nsc = 600 if quick else 50000
        for _ in range(nsc):
            arr = self.rand_arr(rng, maxn=6)
            nd = len(arr['shape'])
            axis = rng.randrange(nd)
            dim = ['epoch', 'channel', 'time'][3 - nd + axis]
            n = arr['shape'][axis]
            ncut = rng.randint(1, 3)
            cuts = sorted(rng.randint(0, n) for _ in range(ncut)) if rng.random() < 0.8 else [rng.randint(-n - 3, n + 3)]
            alter = rng.choice(self.alterations(dim, nd)) if rng.random() < 0.3 and n >= 1 else None
            yield self.split_case(arr, axis, dim, cuts, alter, prefix=rng.random() < 0.5)

        # isolation of annotations: tag one derived piece in place; the parent, the sibling and a copy keep theirs,
        # and the tagged piece no longer concatenates with its sibling (mismatched metadata are rejected)
        # (1-D / 2-D only: for 3-D arrays the per-epoch dicts are shared between an array and its views by design
        # of the shallow copy in __array_finalize__, and the property does not speak about that)
        for nd in (1, 2):
            for how in ('copy', 'add', 'astype'):
                arr = self.mk_arr([2, 2, 4][-nd:], s0=5, fs=(432, 1), md0=3)
                it1, it2 = ['s', None, 2, None], ['s', 2, None, None]
                val = 55 if nd < 3 else [55] * arr['shape'][0]
                ops = [{'op': 'get', 'k': 0, 'j': 1, 'idx': {'t': 'tup', 'items': [['e'], it1]}},
                       {'op': 'get', 'k': 0, 'j': 2, 'idx': {'t': 'tup', 'items': [['e'], it2]}},
                       {'op': 'fin', 'k': 0, 'j': 3, 'how': how},
                       {'op': 'set', 'k': 1, 'field': 'md', 'value': val, 'inplace': True},
                       {'op': 'show', 'k': 0}, {'op': 'show', 'k': 2}, {'op': 'show', 'k': 3},
                       {'op': 'concat', 'j': 30, 'dim': 'time', 'ks': [1, 2], 'expect': 'reject'}]
                yield {'kind': 'isolation', 'arrs': [arr], 'ops': ops}
            # ... and in the other direction: tagging the RESULT of a concat leaves the pieces it was made from
            # alone, so the same adjacent pieces still concatenate to the original afterwards
            arr = self.mk_arr([2, 2, 4][-nd:], s0=5, fs=(432, 1), md0=3)
            it1, it2 = ['s', None, 2, None], ['s', 2, None, None]
            ops = [{'op': 'get', 'k': 0, 'j': 1, 'idx': {'t': 'tup', 'items': [['e'], it1]}},
                   {'op': 'get', 'k': 0, 'j': 2, 'idx': {'t': 'tup', 'items': [['e'], it2]}},
                   {'op': 'concat', 'j': 30, 'dim': 'time', 'ks': [1, 2], 'expect': 'restore:0'},
                   {'op': 'set', 'k': 30, 'field': 'md', 'value': 66, 'inplace': True},
                   {'op': 'show', 'k': 1}, {'op': 'show', 'k': 2}, {'op': 'show', 'k': 0},
                   {'op': 'concat', 'j': 31, 'dim': 'time', 'ks': [1, 2], 'expect': 'restore:0'}]
            yield {'kind': 'isolation', 'arrs': [arr], 'ops': ops}

        # arithmetic / copies on fresh arrays
        for nd in (1, 2, 3):
            for how in FIN_OLD + sorted(set(FIN) - set(FIN_OLD)):
                arr = self.mk_arr([3, 2, 4][-nd:], s0=-7, fs=(864, 1), md0=3)
                yield {'kind': 'finalize', 'arrs': [arr], 'ops': [{'op': 'fin', 'k': 0, 'j': 1, 'how': how}]}

    @staticmethod
    def alterations(dim, nd):
        # 'fsnear': a rate differing by one part in 2^20 (a tolerant comparison would let it through)
        out = [('fs', [27, 1]), ('fsnear', None)]
        if dim == 'time':
            out += [('s0', +1), ('s0', -1), ('s0', +5)]
        if dim != 'channel':
            out.append(('ch', 'zz' if nd == 1 else None))
        if dim != 'epoch':
            out.append(('md', 77))
        return out

    def split_case(self, arr, axis, dim, cuts, alter, prefix=False):
        """pieces x[:c1], x[c1:c2], …, x[ck:] along `axis` (in registers 1…), then concat."""
        nd = len(arr['shape'])
        n = arr['shape'][axis]
        src, ops = 0, []
        if prefix and dim == 'time' and n >= 2:
            # work on a slice of the original, so that the pieces carry a shifted s0
            ops.append({'op': 'get', 'k': 0, 'j': 20, 'idx': {'t': 'tup', 'items': [['e'], ['s', 1, None, None]]}})
            src, n = 20, n - 1
            cuts = [min(c, n) if c >= 0 else c for c in cuts]
        bnds = [None] + list(cuts) + [None]
        ks = []
        for i in range(len(bnds) - 1):
            it = ['s', bnds[i], bnds[i + 1], None]
            items = [FULL] * axis + [it] if axis else [it]
            idx = {'t': 'tup', 'items': items}
            if dim == 'time':
                idx = {'t': 'tup', 'items': [['e'], it]} if i % 2 else {'t': 'tup', 'items': [FULL] * axis + [it]}
            ops.append({'op': 'get', 'k': src, 'j': i + 1, 'idx': idx})
            ks.append(i + 1)
        kind = 'split'
        expect = f'restore:{src}'
        if alter is not None and ((alter[0] == 'ch' and nd > 1 and arr['shape'][-2] == 0) or
                                  (alter[0] == 'md' and nd == 3 and arr['shape'][0] == 0)):
            alter = None        # the altered value would equal the original (empty list)
        if alter is not None:
            field, val = alter
            piece = ks[-1]
            if field == 's0':
                ops.append({'op': 'set', 'k': piece, 'field': 's0', 'delta': val})
            elif field == 'fs':
                ops.append({'op': 'set', 'k': piece, 'field': 'fs', 'value': [arr['fs'][0] * 2, arr['fs'][1]]})
            elif field == 'fsnear':
                ops.append({'op': 'set', 'k': piece, 'field': 'fs',
                            'value': [arr['fs'][0] * (2 ** 20 + 1), arr['fs'][1] * 2 ** 20]})
            elif field == 'ch':
                v = val if nd == 1 else ['zz'] * arr['shape'][-2]
                ops.append({'op': 'set', 'k': piece, 'field': 'ch', 'value': v})
            else:
                v = val if nd < 3 else [val] * arr['shape'][0]
                ops.append({'op': 'set', 'k': piece, 'field': 'md', 'value': v})
            kind, expect = 'altered', 'reject'
        ops.append({'op': 'concat', 'j': 30, 'dim': dim, 'ks': ks, 'expect': expect})
        return {'kind': f'{kind}-{dim}', 'arrs': [arr], 'ops': ops}

    # ---- model side -----------------------------------------------------
    def model_lines(self, c):
        lines = []
        for k, a in enumerate(c['arrs']):
            lines.append(f"new {k} {a['base']} {ilist(a['shape'])} {a['s0']} {a['fs'][0]}/{a['fs'][1]} "
                         f"{enc_ch(a['ch'])} {enc_md(a['md'])}")
        # `set s0 delta` needs the current value: tracked from the (deterministic) program text
        for op in c['ops']:
            if op['op'] == 'get':
                lines.append(f"get {op['k']} {op['j']} {enc_index(op['idx'])}")
            elif op['op'] == 'fin':
                lines.append(f"fin {op['k']} {op['j']}")
            elif op['op'] == 'show':
                lines.append(f"show {op['k']}")
            elif op['op'] == 'set':
                if op['field'] == 's0':
                    lines.append(f"adds0 {op['k']} {op['delta']}")
                elif op['field'] == 'fs':
                    lines.append(f"set {op['k']} fs {op['value'][0]}/{op['value'][1]}")
                elif op['field'] == 'ch':
                    lines.append(f"set {op['k']} ch {enc_ch(op['value'])}")
                else:
                    lines.append(f"set {op['k']} md {enc_md(op['value'])}")
            elif op['op'] == 'concat':
                lines.append(f"concat {op['j']} {op['dim']} {ilist(op['ks'])}")
        return lines

    # ---- implementation side ---------------------------------------------
    @staticmethod
    def build(P, a, rep):
        """PipelineData(...) for the array description `a`; `rep` = another spelling of the same arguments."""
        mkmd = mkmd_for(rep)
        n = int(np.prod(a['shape'])) if a['shape'] else 1
        dt = rep.get('dtype') or float
        data = (a['base'] + np.arange(n)).astype(dt).reshape(a['shape'])
        order = rep.get('order')
        if order == 'F':
            data = np.asfortranarray(data)
        elif order == 'strided':
            # every second element of a buffer twice as long on the last axis
            big = np.zeros(tuple(a['shape'][:-1]) + (2 * a['shape'][-1] + 1,), dtype=data.dtype) - 1
            big[..., 1::2] = data
            data = big[..., 1::2]
        elif order == 'rev':
            data = data[..., ::-1].copy()[..., ::-1]       # negative stride on the time axis
        elif order == 'list' and 0 not in a['shape'][:-1]:
            data = data.tolist()
        ch = list(a['ch']) if isinstance(a['ch'], list) else a['ch']
        if rep.get('chtuple') and isinstance(ch, list):
            ch = tuple(ch)
        fs = a['fs'][0] / a['fs'][1]
        fr = rep.get('fsrep')
        if fr == 'int' and a['fs'][1] == 1:
            fs = int(a['fs'][0])
        elif fr == 'np64':
            fs = np.float64(fs)
        elif fr == 'np32':
            fs = np.float32(fs)
        s0 = np.int64(a['s0']) if rep.get('s0rep') == 'np64' else a['s0']
        md = mkmd(a['md'])
        ctor = rep.get('ctor')
        if ctor == 'pos':
            return P.PipelineData(data, fs, s0, ch, md)
        if ctor == 'defaults':
            kw = {'metadata': md}
            if a['s0'] != 0:
                kw['s0'] = s0
            if not (ch is None or (isinstance(ch, (list, tuple)) and all(x is None for x in ch))):
                kw['channel'] = ch
            return P.PipelineData(data, fs, **kw)
        if ctor == 'kw':
            return P.PipelineData(arr=data, metadata=md, channel=ch, s0=s0, fs=fs)
        return P.PipelineData(data, fs=fs, s0=s0, channel=ch, metadata=md)

    def impl_lines(self, c):
        from psiaudio import pipeline as P
        regs, out = {}, []

        rep = c.get('rep') or {}
        mkmd = mkmd_for(rep)
        for k, a in enumerate(c['arrs']):
            regs[k] = self.build(P, a, rep)
            out.append(canon_pd(regs[k]))
        for op in c['ops']:
            try:
                if op['op'] == 'get':
                    if op['k'] not in regs:
                        out.append('err no-register')
                        continue
                    ix = py_index(op['idx'], rep)
                    r = regs[op['k']][ix]
                    if not same_index(ix, py_index(op['idx'], rep)):
                        out.append('arg-modified: the index object passed to __getitem__ was changed')
                        continue
                    if isinstance(r, P.PipelineData):
                        regs[op['j']] = r
                        out.append(canon_pd(r))
                    else:
                        out.append(f'scalar {int(r)}')
                elif op['op'] == 'fin':
                    if op['k'] not in regs:
                        out.append('err no-register')
                        continue
                    a = regs[op['k']]
                    how = op['how']
                    r = FIN[how](a)
                    out.append(canon_pd(r, data=False))
                    # keep index-valued data for the rest of the chain; the annotations are those of the result
                    r2 = np.asarray(a).copy().view(P.PipelineData)
                    r2.fs, r2.s0, r2.channel, r2.metadata = r.fs, r.s0, r.channel, r.metadata
                    regs[op['j']] = r2
                elif op['op'] == 'set':
                    if op['k'] not in regs:
                        out.append('err no-register')
                        continue
                    a = regs[op['k']]
                    if op['field'] == 's0':
                        a.s0 = a.s0 + op['delta']
                    elif op['field'] == 'fs':
                        a.fs = op['value'][0] / op['value'][1]
                    elif op['field'] == 'ch' and op.get('inplace'):
                        # the caller overwrites the labels of THIS array's channel list in place
                        if not isinstance(a.channel, list) or len(a.channel) != len(op['value']):
                            out.append('err harness-inplace-shape')
                            continue
                        for i, v in enumerate(op['value']):
                            a.channel[i] = v
                    elif op['field'] == 'ch':
                        a.channel = list(op['value']) if isinstance(op['value'], list) else op['value']
                    elif op.get('inplace') and isinstance(op['value'], list):
                        # the caller overwrites the entries of the metadata LIST of this array in place
                        if not isinstance(a.metadata, list) or len(a.metadata) != len(op['value']):
                            out.append('err harness-inplace-shape')
                            continue
                        for i, v in enumerate(op['value']):
                            a.metadata[i] = {'i': v}
                    elif op.get('inplace'):
                        # the caller tags this piece through the public API (in-place update of ITS metadata)
                        a.add_metadata('i', op['value'])
                    else:
                        a.metadata = mkmd(op['value'])
                    out.append(canon_pd(a))
                elif op['op'] == 'show':
                    out.append(canon_pd(regs[op['k']]) if op['k'] in regs else 'err no-register')
                elif op['op'] == 'concat':
                    if any(k not in regs for k in op['ks']):
                        out.append('err no-register')
                        continue
                    pieces = [regs[k] for k in op['ks']]
                    sig = lambda q: (q.shape, q.s0, q.fs, repr(q.channel), repr(q.metadata), q.dtype.str, np.asarray(q).tobytes())
                    before = [sig(p_) for p_ in pieces]
                    seq = tuple(pieces) if rep.get('seq') == 'tuple' else list(pieces)
                    ax = rep.get('axis')
                    try:
                        if ax == 'name':
                            r = P.concat(seq, axis=op['dim'])
                        elif ax == 'default' and op['dim'] == 'time':
                            r = P.concat(seq)
                        elif ax == 'pos':
                            r = P.concat(seq, {'time': -1, 'channel': -2, 'epoch': -3}[op['dim']])
                        else:
                            r = P.concat(seq, axis={'time': -1, 'channel': -2, 'epoch': -3}[op['dim']])
                    finally:
                        after = [sig(p_) for p_ in pieces]
                        same_seq = len(seq) == len(pieces) and all(x is y for x, y in zip(seq, pieces))
                    if before != after or not same_seq:
                        out.append('arg-modified: concat changed the arrays it was given')
                        continue
                    regs[op['j']] = r
                    out.append(canon_pd(r))
            except Exception as e:
                out.append(f'err {type(e).__name__}')
        return out

    @staticmethod
    def _consistent(r):
        try:
            if r.ndim > 1 and not (isinstance(r.channel, list) and len(r.channel) == r.shape[-2]):
                return False
            if r.ndim > 2 and not (isinstance(r.metadata, list) and len(r.metadata) == r.shape[-3]):
                return False
            return True
        except Exception:
            return False

    # ---- oracle -----------------------------------------------------------
    def oracle(self, c, out):
        na = len(c['arrs'])
        if len(out) != na + len(c['ops']):
            return f'adapter produced {len(out)} lines for {na + len(c["ops"])} operations: {out[-1:]}'
        regs, canon = {}, {}
        for k in range(na):
            regs[k] = parse_line(out[k])
            canon[k] = True
            if regs[k] is None:
                return f'constructor failed: {out[k]}'
        for n, op in enumerate(c['ops']):
            line = out[na + n]
            if line.startswith('HARNESS-EXC'):
                return line
            if line.startswith('arg-modified'):
                return f'op {n}: {line}'
            pre = regs.get(op.get('k'))
            if op['op'] == 'get':
                if pre is None:
                    continue
                if canon.get(op['k']):
                    f = oracle_get(pre, op['idx'], line)
                    if f is not None:
                        return f'op {n}: {f}'
                post = parse_line(line)
                if post is not None:
                    regs[op['j']] = post
                    canon[op['j']] = canon.get(op['k'], False) and canonical_after(len(pre['shape']), op['idx'])
            elif op['op'] == 'fin':
                if pre is None:
                    continue
                post = parse_line(line)
                if post is None:
                    return f"op {n}: {op['how']} raised {line}"
                d = same_annot(pre, post, data=False)
                if d:
                    return f"op {n}: {op['how']} changed {d}: {[pre[k] for k in d]} -> {[post[k] for k in d]}"
                post['data'] = pre['data']
                regs[op['j']] = post
                canon[op['j']] = canon.get(op['k'], False)
            elif op['op'] == 'set':
                post = parse_line(line)
                if post is not None:
                    regs[op['k']] = post
            elif op['op'] == 'show':
                post = parse_line(line)
                if pre is not None and post is not None:
                    d = same_annot(pre, post, data=False)
                    if d:
                        return (f"op {n}: annotations {d} of r{op['k']} changed although no operation was applied to it "
                                f"(another array derived from the same data was tagged): "
                                f"{[pre[k] for k in d]} -> {[post[k] for k in d]}")
            elif op['op'] == 'concat':
                if any(k not in regs for k in op['ks']):
                    continue
                exp = op.get('expect')
                post = parse_line(line)
                if exp == 'reject':
                    if post is not None:
                        return f"op {n}: concat along {op['dim']} accepted a piece with altered {self._altered(c)}"
                elif exp and exp.startswith('restore:'):
                    orig = regs[int(exp.split(':')[1])]
                    if post is None:
                        pcs = [(regs[k]['s0'], regs[k]['shape']) for k in op['ks']]
                        return f"op {n}: concat along {op['dim']} of adjacent pieces (s0, shape) {pcs} raised {line[4:]}"
                    d = same_annot(orig, post)
                    if d:
                        return f"op {n}: split + concat along {op['dim']} does not restore {d}: {[orig[k] for k in d]} -> {[post[k] for k in d]}"
                elif post is not None:
                    sh = post['shape']
                    if isinstance(post['ch'], list) and len(sh) >= 2 and len(post['ch']) != sh[-2]:
                        return f'op {n}: concat result has {len(post["ch"])} labels for {sh[-2]} channels'
                    if isinstance(post['md'], list) and len(sh) >= 3 and len(post['md']) != sh[-3]:
                        return f'op {n}: concat result has {len(post["md"])} metadata entries for {sh[-3]} epochs'
                if post is not None:
                    regs[op['j']] = post
        return None

    @staticmethod
    def _altered(c):
        return [(o['field'], o.get('value', o.get('delta'))) for o in c['ops'] if o['op'] == 'set']

    def nontrivial(self, c, out):
        na = len(c['arrs'])
        return any(l.startswith('err') or (l.startswith('arr') and l != out[0]) for l in out[na:])

    def kind(self, c):
        return c['kind']

    # ---- known findings ----------------------------------------------------
    def known(self, c, failure):
        """C11-KF1: two or more list/array/mask entries in ONE index expression are paired element-wise by
        NumPy (their axes merge into one) while the labels are selected per axis.
        Boundary proved in Lean (PsiProofs/C11.lean): `single_advanced_counts` (<= 1 list/mask entry: counts always
        equal the axis lengths) and `two_advanced_boundary` (two entries: counts differ iff the two lists have
        different lengths) -- hence only a COUNT failure on such an expression is an instance of the finding."""
        if not failure.startswith('op ') or 'for an axis of length' not in failure:
            return None
        try:
            n = int(failure[3:].split(':')[0])
            op = c['ops'][n]
        except Exception:
            return None
        if op['op'] != 'get':
            return None
        items = op['idx']['items']
        # source array of that op must be 3-D: replay the shapes with plain NumPy
        shapes = {k: list(a['shape']) for k, a in enumerate(c['arrs'])}
        for o in c['ops'][:n + 1]:
            if o['op'] == 'get' and o['k'] in shapes:
                s = self.ref_shape(shapes[o['k']], o['idx'])
                if o is op:
                    per = ref_axis_items(items, len(shapes[o['k']]))
                    if per is not None and sum(1 for it in items if is_fancy(it)) >= 2:
                        return 'C11-KF1'
                    return None
                if s is not None:
                    shapes[o['j']] = s
            elif o['op'] == 'fin' and o['k'] in shapes:
                shapes[o['j']] = shapes[o['k']]
        return None

    # ---- search helpers ------------------------------------------------------
    def neighbours(self, c, rng):
        for n, op in enumerate(c['ops']):
            if op['op'] != 'get':
                continue
            for j, it in enumerate(op['idx']['items']):
                if it[0] == 's':
                    for pos in (1, 2):
                        for d in (-2, -1, 1, 2):
                            if it[pos] is not None:
                                cc = copy.deepcopy(c)
                                cc['ops'][n]['idx']['items'][j][pos] = it[pos] + d
                                yield cc
                elif it[0] == 'i':
                    for d in (-1, 1):
                        cc = copy.deepcopy(c)
                        cc['ops'][n]['idx']['items'][j][1] = it[1] + d
                        yield cc

    def shrink_candidates(self, c):
        # fewer operations
        if len(c['ops']) > 1 and c['ops'][-1]['op'] != 'concat':
            cc = copy.deepcopy(c)
            cc['ops'] = cc['ops'][:-1]
            yield cc
        # plain annotations
        for a_i, a in enumerate(c['arrs']):
            if a['s0'] != 0:
                cc = copy.deepcopy(c)
                cc['arrs'][a_i]['s0'] = 0
                yield cc
            if a['base'] != 0:
                cc = copy.deepcopy(c)
                cc['arrs'][a_i]['base'] = 0
                yield cc
        # simpler index entries (not for split/concat programs: their slices must stay a partition)
        for n, op in enumerate(c['ops']):
            if op['op'] != 'get' or any(o['op'] == 'concat' for o in c['ops']):
                continue
            items = op['idx']['items']
            for j, it in enumerate(items):
                if it[0] == 's':
                    for pos in (1, 2, 3):
                        if it[pos] is not None:
                            cc = copy.deepcopy(c)
                            cc['ops'][n]['idx']['items'][j][pos] = None
                            yield cc
                            if it[pos] not in (0, 1, -1):
                                cc = copy.deepcopy(c)
                                cc['ops'][n]['idx']['items'][j][pos] = it[pos] - (1 if it[pos] > 0 else -1)
                                yield cc
                elif it[0] in 'ne' or it != FULL:
                    if it[0] in 'LBAM' and len(it[1]) > 1:
                        for q in range(len(it[1])):
                            cc = copy.deepcopy(c)
                            del cc['ops'][n]['idx']['items'][j][1][q]
                            yield cc

    def describe(self, c):
        a = c['arrs'][0]
        s = f"x = PipelineData(shape {a['shape']}, fs={a['fs'][0]}/{a['fs'][1]}, s0={a['s0']}, channel={a['ch']}, metadata ids {a['md']}); "
        for k, b in enumerate(c['arrs'][1:]):
            s += f"r{k + 1} = PipelineData(shape {b['shape']}, fs={b['fs'][0]}/{b['fs'][1]}, s0={b['s0']}, channel={b['ch']}, metadata ids {b['md']}); "
        if c.get('rep'):
            s = f"[arguments spelled as {c['rep']}] " + s
        parts = []
        for op in c['ops']:
            if op['op'] == 'get':
                parts.append(f"r{op['j']} = r{op['k']}{show_index(op['idx'])}")
            elif op['op'] == 'fin':
                parts.append(f"r{op['j']} = {op['how']}(r{op['k']})")
            elif op['op'] == 'set':
                if op.get('inplace') and (op['field'] == 'ch' or isinstance(op['value'], list)):
                    attr = 'channel' if op['field'] == 'ch' else 'metadata'
                    parts.append(f"r{op['k']}.{attr}[i] = {op['value']}[i] for every i (in place)")
                elif op.get('inplace'):
                    parts.append(f"r{op['k']}.add_metadata('i', {op['value']})")
                else:
                    parts.append(f"r{op['k']}.{op['field']} {'+=' if 'delta' in op else '='} {op.get('delta', op.get('value'))}")
            elif op['op'] == 'show':
                parts.append(f"look at r{op['k']}")
            else:
                parts.append(f"r{op['j']} = concat([{', '.join('r%d' % k for k in op['ks'])}], axis='{op['dim']}')")
        return s + '; '.join(parts)


SPEC = C11()
