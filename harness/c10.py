"""C10 — generation is deterministic and isolated from other objects and global state.

A case is a *history*: an interleaving of
  * calls of the memoised stimulus functions (same positional/keyword form the library
    itself uses), in-place writes by the caller into arrays returned earlier;
  * construction / next / reset / deepcopy of stimulus factories, queue append / pop / clone;
  * np.random.seed + draws on the GLOBAL generator; `scribble` = overwrite every array any
    library call has returned so far.
The prediction (Lean model `cache`, and independently the oracle below) ignores the global
RNG and the caller's writes: every `call` must return f(args), every `next`/`pop` must return
what a freshly built object with the same lineage returns in a pristine world.

Outputs never contain floats: a chunk is named by its lineage (`g3[5,7]+4` = 3rd spec, chunks 5 and
7 drawn since construction/reset, this chunk 4 samples) and compared bit-exactly, inside
`impl_lines`, with the chunk a pristine object of that lineage produces (` DIFF@i` is appended on
a difference).

Words of an op beyond those the model knows (`next O n np`, `append Q G t d ext meta`, `pop Q n nodec`) name the
spelling of the same call (NumPy integer, extend(), keywords, metadata, decrement=False); the model line drops
them, the reference is built through the same spelling.  Queue parameters >= 100 select the grouped /
keep_complete_waveforms=False variants of the fifo / interleaved kinds.
"""
import copy
import itertools
import json
import os
import pickle
import sys
import tempfile
import traceback

import numpy as np

from .framework import Spec
from .common import VERIF as VERIF_DIR

FS = 1000.0
POISON = -12345.5
CACHED = ['envelope', 'cos2envelope', 'sam_eq_power', 'sam_eq_phase', '_sam_envelope', 'sam_envelope',
          '_calculate_bandlimited_noise_filter', '_calculate_bandlimited_noise_iir', 'load_wav']


# --------------------------------------------------------------------------
# environment: wav fixtures, cache clearing, process isolation
# --------------------------------------------------------------------------

def wav_dir():
    """Three tiny deterministic wav files (int16 @fs, int16 @2fs -> resampled, float32 @fs)."""
    from scipy.io import wavfile
    d = os.path.join(tempfile.gettempdir(), 'psiverif_c10_wav_v1')
    os.makedirs(d, exist_ok=True)
    k = np.arange(48)
    x16 = ((np.sin(k * 0.37) * 0.6 + ((k * 7) % 11 - 5) / 20.0) * 20000).astype(np.int16)
    want = {'a16.wav': (1000, x16[:40]), 'b16.wav': (2000, x16),
            'c32.wav': (1000, (x16[:36] / 32768.0).astype(np.float32))}
    for name, (rate, data) in want.items():
        p = os.path.join(d, name)
        if not os.path.exists(p):
            tmp = p + f'.{os.getpid()}.tmp'
            wavfile.write(tmp, rate, data)
            os.replace(tmp, p)
    return d


def _stim():
    import logging
    from psiaudio import stim
    logging.getLogger('psiaudio').setLevel(logging.ERROR)
    return stim


def clear_caches():
    """Empty every memo of psiaudio.stim. False when some memo cannot be found/emptied."""
    stim = _stim()
    ok = True
    for name in dir(stim):
        f = getattr(stim, name)
        if not (callable(f) and hasattr(f, '__wrapped__')):
            continue
        if hasattr(f, 'cache_clear'):
            f.cache_clear()
            continue
        cleared = False
        for cell in (getattr(f, '__closure__', None) or ()):
            try:
                v = cell.cell_contents
            except ValueError:
                continue
            if isinstance(v, dict):
                v.clear()
                cleared = True
        ok = ok and cleared
    return ok


# Limits of one forked evaluation: CPU time (what a library that no longer terminates burns; immune to machine load)
# and a very generous wall-clock backstop for waits that burn no CPU.
CHILD_CPU = int(os.environ.get('C10_CHILD_CPU', '60'))
CHILD_TIMEOUT = int(os.environ.get('C10_CHILD_TIMEOUT', '900'))


def leash(cpu=None, parent=None):
    """Tie this process to its parent and bound what it may burn: the kernel kills it when the parent dies
    (PR_SET_PDEATHSIG) and when it has used `cpu` seconds of CPU time (RLIMIT_CPU: SIGXCPU at the soft limit, SIGKILL
    5 s later).  A library call that never returns can then neither hang the check nor outlive it as an orphan.
    `parent`: the pid that must still be the parent (closes the window between fork and prctl)."""
    try:
        import ctypes
        import signal
        ctypes.CDLL('libc.so.6', use_errno=True).prctl(1, signal.SIGKILL)      # PR_SET_PDEATHSIG
        if parent is not None and os.getppid() != parent:
            os._exit(1)
    except Exception:  # noqa
        pass
    if cpu:
        try:
            import resource
            soft, hard = resource.getrlimit(resource.RLIMIT_CPU)
            lim = cpu + 5 if hard == resource.RLIM_INFINITY else min(cpu + 5, hard)
            resource.setrlimit(resource.RLIMIT_CPU, (min(cpu, lim), lim))
        except Exception:  # noqa
            pass


class ChildDied(RuntimeError):
    """the forked evaluation was killed (time limit) or ended without a result"""


def in_child(fn, *args, cpu=None):
    """Run fn(*args) in a forked child (pristine copy of this process), return its result."""
    cpu = cpu or CHILD_CPU
    r, w = os.pipe()
    me = os.getpid()
    pid = os.fork()
    if pid == 0:
        code = 0
        try:
            os.close(r)
            leash(cpu, me)
            # a library that no longer terminates on this input (e.g. two queues sharing their bookkeeping) must
            # not hang the check: SIGALRM's default action ends the child, the parent reports the timeout
            import signal
            signal.signal(signal.SIGALRM, signal.SIG_DFL)
            signal.alarm(CHILD_TIMEOUT)
            try:
                data = pickle.dumps(('ok', fn(*args)))
            except BaseException as e:  # noqa
                data = pickle.dumps(('err', f'{type(e).__name__}: {e}\n{traceback.format_exc()[-600:]}'))
            with os.fdopen(w, 'wb') as f:
                f.write(data)
        except BaseException:  # noqa
            code = 1
        finally:
            os._exit(code)
    os.close(w)
    with os.fdopen(r, 'rb') as f:
        data = f.read()
    _, status = os.waitpid(pid, 0)
    if not data:
        import signal
        sig = os.WTERMSIG(status) if os.WIFSIGNALED(status) else 0
        why = (f'did not finish within {CHILD_TIMEOUT} s of wall time (killed)' if sig == signal.SIGALRM else
               f'did not finish within {cpu} CPU-s (killed): the library hangs on this input'
               if sig in (signal.SIGXCPU, signal.SIGKILL) else f'ended without a result (wait status {status})')
        raise ChildDied(f'child {why}')
    kind, val = pickle.loads(data)
    if kind == 'err':
        raise RuntimeError('child failed: ' + val)
    return val


def pristine(fn, *args):
    """fn(*args) in a world whose memo tables are empty: by clearing them, or, if the memo
    implementation is not recognised, in a forked child of a process that never used them."""
    if clear_caches():
        return fn(*args)
    return in_child(fn, *args)


# --------------------------------------------------------------------------
# worlds: the shared objects a history can pass to the library
# --------------------------------------------------------------------------

class World:
    """Parameter objects of one run of a history (arrays, calibrations, dicts): created once per
    world, the *same* object is passed every time a spec mentions it."""

    def __init__(self, case):
        from psiaudio import calibration

        class StubCal(calibration.FlatCalibration):
            IIR = [0.5, 0.25, -0.125, 0.0625]

            def get_iir(self, fs, fl, fh, duration):
                return np.array(self.IIR)

        class StubCal2(StubCal):
            IIR = [0.5, -0.25, 0.125, 0.03125]

        dts = case.get('adtypes') or []
        self.arrays = []
        for i, a in enumerate(case.get('arrays', [])):
            dt = dts[i] if i < len(dts) and dts[i] else 'float64'
            a = np.array(a, dtype=np.double)
            self.arrays.append((a * 1000).astype(dt) if dt.startswith('int') else a.astype(dt))
        # calibrations: [0] unity, [1] flat 6 dB, [2] frequency dependent
        self.cals = [calibration.FlatCalibration.unity(), calibration.FlatCalibration(6.0),
                     calibration.InterpCalibration([0.0, 100.0, 300.0, 500.0], [0.0, 3.0, -3.0, 6.0])]
        self.stubs = [StubCal(0), StubCal2(0)]
        self.cal_unity = self.cals[0]
        self.cal_stub = self.stubs[0]
        self.wav = wav_dir()
        self._shared = {}

    def shared(self, name, make):
        """A mutable parameter object (dict, array) that every mention of `name` in this world passes again."""
        if name not in self._shared:
            self._shared[name] = make()
        return self._shared[name]


def _half(x):
    return x * 0.5


def _neg(x):
    return -x


TRANSFORMS = {None: None, 'half': _half, 'neg': _neg}
INT_ONLY = ('seed', 'ntaps', 'n', 'skip', 'offset', 'samples', 'x')


def rep_value(v, rep, int_only=False):
    """The same number in another representation: 'np' NumPy scalar, 'int' Python int for integral floats,
    'flt' Python float for ints.  Parameters that must stay integers only ever become np.int64."""
    if rep is None or v is None or isinstance(v, (str, bool)) or not isinstance(v, (int, float)):
        return v
    if rep == 'np':
        return np.int64(v) if isinstance(v, int) else np.float64(v)
    if int_only:
        return v
    if rep == 'int':
        return int(v) if isinstance(v, float) and v == int(v) else v
    if rep == 'flt':
        return float(v) if isinstance(v, int) else v
    return v


def rep_fs(rep):
    return {'np': np.float64(FS), 'int': int(FS)}.get(rep, FS)


def build(spec, w):
    """Construct the factory a spec describes (recursively).  Optional spec fields select non-default
    keyword arguments; `rep` selects the representation of the numbers."""
    stim = _stim()
    t = spec['t']
    rep = spec.get('rep')
    fs = rep_fs(rep)
    sub = build(spec['in'], w) if 'in' in spec else None

    def P(k, default=None):
        return rep_value(spec.get(k, default), rep, k in INT_ONLY)

    def cal(default=None):
        i = spec.get('cal', default)
        return None if i is None else w.cals[i]

    def opt(**names):
        """keyword arguments for the optional spec fields that are present"""
        return {kw: P(k) for kw, k in names.items() if k in spec}

    if t == 'tone':
        kw = {'calibration': cal()} if 'cal' in spec else {}
        if spec.get('kw'):
            return stim.ToneFactory(fs=fs, frequency=P('f'), level=P('level'), phase=P('phase'), polarity=P('pol'), **kw)
        return stim.ToneFactory(fs, P('f'), P('level'), P('phase'), P('pol'), **kw)
    if t == 'samtone':
        kw = opt(depth='depth', phase='phase', phase_lb='plb', phase_ub='pub', polarity='pol')
        kw.update({k: spec[k] for k in ('eq_power', 'equalize') if k in spec})
        if 'cal' in spec:
            kw['calibration'] = cal()
        return stim.SAMToneFactory(fs, P('fc'), P('fm'), P('level'), **kw)
    if t == 'silence':
        return stim.SilenceFactory(fill_value=P('fill')) if spec.get('kw') else stim.SilenceFactory(P('fill'))
    if t == 'square':
        return stim.SquareWaveFactory(fs, P('level'), P('f'), P('duty'))
    if t == 'bbn':
        kw = {'calibration': cal()} if 'cal' in spec else {}
        if spec.get('kw'):      # seed given positionally
            return stim.BroadbandNoiseFactory(fs, P('level'), P('seed'), False, P('pol'), **kw)
        return stim.BroadbandNoiseFactory(fs, P('level'), seed=P('seed'), polarity=P('pol'), **kw)
    if t in ('bln', 'blneq'):
        kw = opt(polarity='pol')
        if 'dis' in spec:
            kw['discard_initial_samples'] = spec['dis']
        if t == 'blneq':
            kw.update(equalize=True, calibration=w.stubs[spec.get('cal', 0)])
        elif 'cal' in spec:
            kw['calibration'] = cal()
        return stim.BandlimitedNoiseFactory(fs, P('seed'), P('level'), P('fl'), P('fh'), P('rolloff'), P('pa'),
                                            P('sa'), **kw)
    if t == 'fir':
        kw = opt(polarity='pol', max_correction='maxc')
        kw.update({k: spec[k] for k in ('window', 'equalize') if k in spec})
        return stim.BandlimitedFIRNoiseFactory(fs, P('fl'), P('fh'), P('level'), ntaps=P('ntaps'), seed=P('seed'),
                                               calibration=cal(0), **kw)
    if t == 'shaped':
        # one dict object per (world, value): the library must leave it as it found it
        gains = w.shared('gains' + canon([spec['f1'], spec['f2'], rep]),
                         lambda: {0: -20.0, P('f1'): 0.0, P('f2'): 0.0, FS / 2: -20.0})
        kw = opt(polarity='pol')
        kw.update({k: spec[k] for k in ('window',) if k in spec})
        if 'cal' in spec:
            kw['calibration'] = cal()
        return stim.ShapedNoiseFactory(fs, P('level'), gains, ntaps=P('ntaps'), seed=P('seed'), **kw)
    if t == 'fixed':
        return stim.FixedWaveform(fs, w.arrays[spec['w']])
    if t == 'chirp':
        kw = opt(max_correction='maxc')
        kw.update({k: spec[k] for k in ('equalize',) if k in spec})
        return stim.ChirpFactory(fs, P('f0'), P('f1'), P('dur'), P('level'), cal(), window=spec['window'], **kw)
    if t == 'click':
        return stim.ClickFactory(fs, P('dur'), P('level'), P('pol'), cal(0))
    if t == 'blclick':
        kw = opt(max_correction='maxc')
        kw.update({k: spec[k] for k in ('equalize',) if k in spec})
        if 'cal' in spec:
            kw['calibration'] = cal()
        return stim.BandlimitedClickFactory(fs, P('flb'), P('fub'), P('window'), P('level'), **kw)
    if t == 'wav':
        path = os.path.join(w.wav, spec['file'])
        if 'level' in spec:
            return stim.WavFileFactory(fs, path, P('level'), cal(), normalization=spec['norm'])
        return stim.WavFileFactory(fs, path, normalization=spec['norm'])
    if t == 'gate':
        if spec.get('kw'):
            return stim.GateFactory(fs=fs, start_time=P('start'), duration=P('dur'), input_factory=sub)
        return stim.GateFactory(fs, P('start'), P('dur'), sub)
    if t == 'env':
        if 'tr' in spec:
            return stim.EnvelopeFactory(spec['window'], fs, P('dur'), P('rise'), sub, start_time=P('start'),
                                        transform=TRANSFORMS[spec['tr']])
        return stim.EnvelopeFactory(spec['window'], fs, P('dur'), P('rise'), sub, P('start'))
    if t == 'cos2':
        if spec.get('kw'):
            return stim.Cos2EnvelopeFactory(fs, P('dur'), P('rise'), sub, start_time=P('start'))
        return stim.Cos2EnvelopeFactory(fs, P('dur'), P('rise'), sub, P('start'))
    if t == 'sam':
        kw = {'onset_method': spec['onset']} if 'onset' in spec else {}
        return stim.SAMEnvelopeFactory(fs, P('depth'), P('fm'), P('delay'), P('dir'), sub, **kw)
    if t == 'sqenv':
        if spec.get('kw'):
            return stim.SquareWaveEnvelopeFactory(fs, P('depth'), P('fm'), P('duty'), None, sub, alpha=P('alpha'))
        return stim.SquareWaveEnvelopeFactory(fs, P('depth'), P('fm'), P('duty'), None, sub, P('alpha'))
    if t == 'notch':
        return stim.NotchFilterFactory(fs, P('f'), P('q'), sub)
    if t == 'repeat':
        return stim.RepeatFactory(fs, P('n'), P('skip'), P('rate'), P('delay'), sub)
    raise ValueError(f'unknown spec type {t}')


def invoke(kd, w):
    """Call a stimulus function exactly in the argument form named by the key descriptor (`form` = spelling of
    the call, `rep` = representation of the numbers).  `f:<name>` are the plain (not memoised) functions."""
    stim = _stim()
    fn, form, a = kd['fn'], kd['form'], kd['a']
    rep = kd.get('rep')
    fs = rep_fs(rep)
    a = {k: rep_value(v, rep, k in INT_ONLY) for k, v in a.items()}
    if fn == 'envelope':
        if form == 'pos':      # the form cos2envelope uses
            return stim.envelope(a['window'], fs, a['dur'], a['rise'], a['offset'], a['start'], a['samples'])
        if form == 'kw':       # the form EnvelopeFactory.next uses
            return stim.envelope(window=a['window'], fs=fs, duration=a['dur'], rise_time=a['rise'],
                                 offset=a['offset'], start_time=a['start'], samples=a['samples'],
                                 transform=TRANSFORMS[a.get('tr')])
        if form == 'ramped':   # the form ramped_tone uses
            return stim.envelope(window=a['window'], fs=fs, rise_time=a['rise'], duration=a['dur'])
        # two spellings that give the SAME value to DIFFERENT optional parameters
        if form == 'pos_off':
            return stim.envelope(a['window'], fs, a['dur'], a['rise'], a['x'])
        if form == 'kw_start':
            return stim.envelope(a['window'], fs, a['dur'], a['rise'], start_time=a['x'])
        if form == 'pos_tr':   # transform given positionally
            return stim.envelope(a['window'], fs, a['dur'], a['rise'], a['offset'], a['start'], a['samples'],
                                 TRANSFORMS[a.get('tr')])
    if fn == 'cos2envelope':
        if form == 'pos':
            return stim.cos2envelope(fs, a['dur'], a['rise'], a['offset'], a['start'], a['samples'])
        if form == 'short':
            return stim.cos2envelope(fs, a['dur'], a['rise'])
        if form == 'pos_off':
            return stim.cos2envelope(fs, a['dur'], a['rise'], a['x'])
        if form == 'kw_samples':
            return stim.cos2envelope(fs, a['dur'], a['rise'], samples=a['x'])
        if form == 'kw':
            return stim.cos2envelope(fs=fs, duration=a['dur'], rise_time=a['rise'], offset=a['offset'],
                                     start_time=a['start'], samples=a['samples'])
    if fn == '_sam_envelope':
        if form == 'eq':       # the form SAMEnvelopeFactory.env / sam_envelope use
            return stim._sam_envelope(a['offset'], a['samples'], fs, a['depth'], a['fm'], a['delay'],
                                      stim.sam_eq_phase(a['delay'], a['depth'], 1), stim.sam_eq_power(a['depth']))
        if form == 'pi':       # SAMEnvelopeFactory(onset_method='silence_transition')
            return stim._sam_envelope(a['offset'], a['samples'], fs, a['depth'], a['fm'], a['delay'],
                                      np.pi, stim.sam_eq_power(a['depth']))
        if form == 'kw':
            return stim._sam_envelope(offset=a['offset'], samples=a['samples'], fs=fs, depth=a['depth'], fm=a['fm'],
                                      delay=a['delay'], eq_phase=stim.sam_eq_phase(a['delay'], a['depth'], 1),
                                      eq_power=stim.sam_eq_power(a['depth']))
    if fn == 'sam_envelope':
        if form == 'pos':
            return stim.sam_envelope(a['offset'], a['samples'], fs, a['depth'], a['fm'], a['delay'], True)
        if form == 'kw_eq':
            return stim.sam_envelope(a['offset'], a['samples'], fs, a['depth'], a['fm'], a['delay'], equalize=True)
        if form == 'kw':
            return stim.sam_envelope(offset=a['offset'], samples=a['samples'], fs=fs, depth=a['depth'], fm=a['fm'],
                                     delay=a['delay'], equalize=True)
    if fn == 'sam_eq_power':
        return stim.sam_eq_power(depth=a['depth']) if form == 'kw' else stim.sam_eq_power(a['depth'])
    if fn == 'sam_eq_phase':
        if form == 'kw':
            return stim.sam_eq_phase(delay=a['delay'], depth=a['depth'], direction=a['dir'])
        if form == 'kw_dir':
            return stim.sam_eq_phase(a['delay'], a['depth'], direction=a['dir'])
        return stim.sam_eq_phase(a['delay'], a['depth'], a['dir'])
    if fn == 'blfilter':
        fl, fh, ro = a['fl'], a['fh'], a['rolloff']
        fls, fhs = fl * (2.0 ** -ro), fh * (2.0 ** ro)
        if form == 'kw':
            return stim._calculate_bandlimited_noise_filter(fs, fl, fh, fls, fhs, passband_attenuation=a['pa'],
                                                            stopband_attenuation=a['sa'])
        if form == 'allkw':
            return stim._calculate_bandlimited_noise_filter(
                fs=fs, fl=fl, fh=fh, fls=fls, fhs=fhs, passband_attenuation=a['pa'], stopband_attenuation=a['sa'])
        # 'pos': the form BandlimitedNoiseFactory.__init__ uses
        return stim._calculate_bandlimited_noise_filter(fs, fl, fh, fls, fhs, a['pa'], a['sa'])
    if fn == 'bliir':
        cal = w.stubs[kd['a'].get('cal', 0)]
        if form == 'kw':
            return stim._calculate_bandlimited_noise_iir(fs, calibration=cal, fl=a['fl'], fh=a['fh'])
        return stim._calculate_bandlimited_noise_iir(fs, cal, a['fl'], a['fh'])
    if fn == 'load_wav':
        path = os.path.join(w.wav, a['file'])
        norm = a['norm']
        if form == 'factory':  # the form WavFileFactory.waveform uses
            if 'level' in a:
                return stim.load_wav(fs, path, a['level'], w.cals[kd['a']['cal']], normalization=norm)
            return stim.load_wav(fs, path, None, None, normalization=norm)
        if form == 'short':    # all defaults (normalization=None)
            return stim.load_wav(fs, path)
        if form == 'dflt':     # the same, the reference with the documented defaults spelled out
            return stim.load_wav(fs, path) if kd.get('omit') else stim.load_wav(fs, path, None, None, None)
        if form == 'kwnorm':
            return stim.load_wav(fs, path, normalization=norm)
        if form == 'posnorm':
            return stim.load_wav(fs, path, None, None, norm)
        if form == 'path':     # pathlib.Path instead of str
            import pathlib
            return stim.load_wav(fs, pathlib.Path(path), normalization=norm)
        if form == 'allkw':
            return stim.load_wav(fs=fs, filename=path, level=None, calibration=None, normalization=norm)
    if fn.startswith('f:'):
        return invoke_plain(stim, fn[2:], form, a, fs, w, kd)
    raise ValueError(f'unknown key {fn}/{form}')


PLAIN = ('tone', 'sam_tone', 'square_wave', 'broadband_noise', 'notch_noise', 'bandlimited_noise',
         'bandlimited_fir_noise', 'shaped_noise', 'chirp', 'bandlimited_click', 'repeat', 'ramped_tone', 'cos2ramp')


def invoke_plain(stim, name, form, a, fs, w, kd):
    """The function forms of the stimuli: results must depend on the arguments only as well."""
    kwf = form == 'kw'
    if form == 'dflt':
        # HARDENING item 9: every optional argument left out (`omit`, the call of the history) must give what the
        # documented defaults spelled out give (the reference: `_bare` drops `omit`)
        short = bool(kd.get('omit'))
        if name == 'tone':
            return stim.tone(fs, a['f'], a['level'], duration=a['dur']) if short else \
                stim.tone(fs, a['f'], a['level'], 0, 1, None, 'auto', 0, a['dur'])
        if name == 'sam_tone':
            return stim.sam_tone(fs, a['fc'], a['fm'], a['level'], duration=a['dur']) if short else \
                stim.sam_tone(fs, a['fc'], a['fm'], a['level'], 1, 0, 0, 0, 1, None, 'auto', 0, a['dur'], True, True)
        if name == 'square_wave':
            return stim.square_wave(fs, a['offset'], a['samples'], a['depth'], a['fm'], a['duty']) if short else \
                stim.square_wave(fs, a['offset'], a['samples'], a['depth'], a['fm'], a['duty'], 0)
        if name == 'broadband_noise':
            return stim.broadband_noise(fs, a['level'], a['dur']) if short else \
                stim.broadband_noise(fs, a['level'], a['dur'], 1, False, 1, None)
        if name == 'notch_noise':
            return stim.notch_noise(fs, a['f'], 1.33, a['level'], a['dur']) if short else \
                stim.notch_noise(fs, a['f'], 1.33, a['level'], a['dur'], 1, False, 1, None)
        if name == 'bandlimited_noise':
            return stim.bandlimited_noise(fs, a['level'], a['fl'], a['fh'], a['dur']) if short else \
                stim.bandlimited_noise(fs, a['level'], a['fl'], a['fh'], a['dur'], 1, 1, 80, False, 1, 1, None)
        if name == 'chirp':
            return stim.chirp(fs, a['f0'], a['f1'], a['dur'], a['level']) if short else \
                stim.chirp(fs, a['f0'], a['f1'], a['dur'], a['level'], None, 'boxcar', False, np.inf, None)
        if name == 'bandlimited_click':
            return stim.bandlimited_click(fs, a['flb'], a['fub']) if short else \
                stim.bandlimited_click(fs, a['flb'], a['fub'], 0.1, 1, 'rms', None, False, np.inf, None)
        if name == 'ramped_tone':
            return stim.ramped_tone(fs, a['f'], a['level'], a['dur']) if short else \
                stim.ramped_tone(fs, a['f'], a['level'], a['dur'], None, 'cosine-squared', 0, None)
        raise ValueError(f'no default form of {name}')
    if name == 'tone':
        if kwf:
            return stim.tone(fs=fs, frequency=a['f'], level=a['level'], phase=a['phase'], polarity=a['pol'],
                             samples=a['samples'], offset=a['offset'])
        return stim.tone(fs, a['f'], a['level'], a['phase'], a['pol'], duration=a['dur'])
    if name == 'sam_tone':
        if kwf:
            return stim.sam_tone(fs=fs, fc=a['fc'], fm=a['fm'], level=a['level'], polarity=a['pol'],
                                 samples=a['samples'], offset=a['offset'], eq_power=False)
        return stim.sam_tone(fs, a['fc'], a['fm'], a['level'], duration=a['dur'])
    if name == 'square_wave':
        if kwf:
            return stim.square_wave(fs=fs, offset=a['offset'], samples=a['samples'], depth=a['depth'], fm=a['fm'],
                                    duty_cycle=a['duty'], alpha=a['alpha'])
        return stim.square_wave(fs, a['offset'], a['samples'], a['depth'], a['fm'], a['duty'], a['alpha'])
    if name == 'broadband_noise':
        if kwf:
            return stim.broadband_noise(fs=fs, level=a['level'], duration=a['dur'], seed=a['seed'], polarity=a['pol'],
                                        calibration=w.cals[1])
        return stim.broadband_noise(fs, a['level'], a['dur'], a['seed'], False, a['pol'])
    if name == 'notch_noise':
        if kwf:
            return stim.notch_noise(fs=fs, notch_frequency=a['f'], q=1.33, level=a['level'], duration=a['dur'],
                                    seed=a['seed'], polarity=a['pol'])
        return stim.notch_noise(fs, a['f'], 1.33, a['level'], a['dur'], a['seed'])
    if name == 'bandlimited_noise':
        if kwf:
            return stim.bandlimited_noise(fs=fs, level=a['level'], fl=a['fl'], fh=a['fh'], duration=a['dur'],
                                          stopband_attenuation=a['sa'], polarity=a['pol'], seed=a['seed'])
        return stim.bandlimited_noise(fs, a['level'], a['fl'], a['fh'], a['dur'], 1, 1, a['sa'], False, a['pol'],
                                      a['seed'])
    if name == 'bandlimited_fir_noise':
        return stim.bandlimited_fir_noise(fs, a['level'], a['fl'], a['fh'], a['dur'], ntaps=a['ntaps'],
                                          seed=a['seed'], polarity=a['pol'], calibration=w.cals[2 if kwf else 0],
                                          equalize=kwf)
    if name == 'shaped_noise':
        gains = w.shared('fgains' + canon([kd['a']['f1'], kd.get('rep')]),
                         lambda: {0: -20.0, a['f1']: 0.0, 300.0: 0.0, FS / 2: -20.0})
        if kwf:
            return stim.shaped_noise(fs=fs, level=a['level'], gains=gains, duration=a['dur'], ntaps=a['ntaps'],
                                     window='hamming', polarity=a['pol'], seed=a['seed'])
        return stim.shaped_noise(fs, a['level'], gains, a['dur'], a['ntaps'], 'hann', a['pol'], a['seed'])
    if name == 'chirp':
        if kwf:
            return stim.chirp(fs=fs, start_frequency=a['f0'], end_frequency=a['f1'], duration=a['dur'],
                              level=a['level'], calibration=w.cals[2], window='hann', equalize=True,
                              max_correction=a['maxc'])
        return stim.chirp(fs, a['f0'], a['f1'], a['dur'], a['level'])
    if name == 'bandlimited_click':
        if kwf:
            return stim.bandlimited_click(fs=fs, flb=a['flb'], fub=a['fub'], window=a['window'], level=a['level'],
                                          calibration=w.cals[2], equalize=True, max_correction=a['maxc'])
        return stim.bandlimited_click(fs, a['flb'], a['fub'], a['window'], a['level'])
    if name == 'repeat':
        wave = w.shared('wave' + canon(kd['a']['wave']), lambda: np.array(kd['a']['wave'], dtype=np.double))
        if kwf:
            return stim.repeat(waveform=wave, fs=fs, n=a['n'], skip_n=a['skip'], rate=a['rate'], delay=a['delay'])
        return stim.repeat(wave, fs, a['n'], a['skip'], a['rate'], a['delay'])
    if name == 'ramped_tone':
        if kwf:
            return stim.ramped_tone(fs=fs, frequency=a['f'], level=a['level'], duration=a['dur'], rise_time=a['rise'],
                                    window=a['window'], phase=a['phase'], calibration=w.cals[1])
        return stim.ramped_tone(fs, a['f'], a['level'], a['dur'], a['rise'], a['window'])
    if name == 'cos2ramp':
        return stim.cos2ramp(m=a['samples']) if kwf else stim.cos2ramp(a['samples'])
    raise ValueError(f'unknown function {name}')


def inner_key(kd):
    """Key descriptor of the memoised call whose result object a wrapper returns, else None."""
    fn, form, a = kd['fn'], kd['form'], kd['a']
    rep = {'rep': kd['rep']} if kd.get('rep') else {}
    if fn == 'cos2envelope':
        if form in ('pos', 'kw'):
            return dict({'fn': 'envelope', 'form': 'pos', 'a': dict(a, window='cosine-squared')}, **rep)
        return dict({'fn': 'envelope', 'form': 'pos',
                     'a': {'window': 'cosine-squared', 'dur': a['dur'], 'rise': a['rise'],
                           'offset': a['x'] if form == 'pos_off' else 0, 'start': 0,
                           'samples': a['x'] if form == 'kw_samples' else 'auto'}}, **rep)
    if fn == 'sam_envelope':
        return dict({'fn': '_sam_envelope', 'form': 'eq', 'a': dict(a)}, **rep)
    return None


def canon(o):
    return json.dumps(o, sort_keys=True)


def comps(res):
    """Mutable components of a result: list of ndarrays ([] for scalars)."""
    if isinstance(res, np.ndarray):
        return [res]
    if isinstance(res, tuple):
        return [c for c in res if isinstance(c, np.ndarray)]
    return []


def scalar_repr(x):
    if isinstance(x, (int, float, np.integer, np.floating)) and not isinstance(x, bool):
        return repr(float(x))
    return repr(x)


def freeze(res):
    """Immutable picture of a result for later comparison."""
    if isinstance(res, np.ndarray):
        return ('arr', [np.array(res, copy=True)])
    if isinstance(res, tuple):
        return ('tup', [np.array(c, copy=True) for c in res if isinstance(c, np.ndarray)])
    return ('val', scalar_repr(res))


def dirty_positions(res, ref):
    """'clean' or 'dirty c.i,...' — where the result differs from the pristine value."""
    kind, rv = ref
    if kind == 'val':
        return 'clean' if scalar_repr(res) == rv else 'dirty value'
    cs = comps(res)
    if len(cs) != len(rv):
        return 'dirty arity'
    bad = []
    for c, (a, b) in enumerate(zip(cs, rv)):
        if a.shape != b.shape or a.dtype != b.dtype:
            return f'dirty shape{c}'
        ne = ~((a == b) | ((a != a) & (b != b)))
        bad.extend(f'{c}.{int(i)}' for i in np.flatnonzero(ne))
    return 'clean' if not bad else 'dirty ' + ','.join(bad)


def pack(x):
    """Bit-exact picture of a returned chunk (or of the exception that replaced it)."""
    if isinstance(x, BuildFailed):
        return ('exc', 'build:' + str(x))
    if isinstance(x, BaseException):
        return ('exc', type(x).__name__)
    x = np.asarray(x)
    return ('ok', str(x.dtype), tuple(x.shape), x.tobytes())


def first_diff(a, b):
    """Index of the first differing sample of two packed chunks (0 when not comparable)."""
    if a[0] != b[0] or a[0] == 'exc' or a[1] != b[1] or a[2] != b[2]:
        return 0
    x = np.frombuffer(a[3], dtype=a[1])
    y = np.frombuffer(b[3], dtype=b[1])
    if not len(x):
        return 0
    xs = x.view(np.uint8).reshape(len(x), -1)
    ys = y.view(np.uint8).reshape(len(y), -1)
    idx = np.flatnonzero((xs != ys).any(axis=1))
    return int(idx[0]) if len(idx) else 0


# --------------------------------------------------------------------------
# lineage: what the property says an object's stream may depend on
# --------------------------------------------------------------------------

def g_name(v):
    return f"g{v[1]}[{','.join(str(c) for c in v[2])}]"


def q_name(v):
    evs = []
    for e in v[3]:
        if e[0] == 'a':
            evs.append(f'a({g_name(e[1])})x{e[2]}d{e[3]}')
        elif e[0] == 'w':
            evs.append(f"w{e[1]}{'!' if e[4] else ''}x{e[2]}d{e[3]}")
        else:
            evs.append(f'p{e[1]}')
    return f"q{v[1]}:{v[2]}{{{';'.join(evs)}}}"


QUEUE_KINDS = ('fifo', 'inter', 'blocked', 'brand')


def make_queue(kind, param):
    from psiaudio import queue as Q
    if kind == 'fifo':      # param >= 100: the grouped variant with group_size = param - 100
        if param >= 100:
            return Q.GroupedFIFOSignalQueue(param - 100, fs=FS)
        return Q.FIFOSignalQueue(FS) if param == 1 else Q.FIFOSignalQueue(fs=FS)
    if kind == 'inter':     # param >= 100: keep_complete_waveforms at its non-default value
        if param >= 100:
            return Q.InterleavedFIFOSignalQueue(keep_complete_waveforms=False, fs=FS)
        return Q.InterleavedFIFOSignalQueue(fs=FS)
    if kind == 'blocked':
        return Q.BlockedFIFOSignalQueue(fs=FS)
    if kind == 'brand':
        if param % 2:
            return Q.BlockedRandomSignalQueue(np.int64(param), fs=FS)
        return Q.BlockedRandomSignalQueue(seed=param, fs=FS)
    raise ValueError(kind)


def do_append(q, src, t, d, ex):
    """queue.append / queue.extend of one source; `ex` names the spelling of the call (same meaning)."""
    delays = d / FS
    if 'tnp' in ex:
        t = np.int64(t)
    if 'none' in ex and d == 0:
        delays = None
    if 'cyc' in ex:
        delays = itertools.cycle([d / FS])
    kw = {}
    if 'meta' in ex:
        kw = {'duration': 0.05, 'metadata': {'tag': int(t), 'l': [1, 2]}}
    if 'ext' in ex:
        kw = {k: [v] for k, v in kw.items()}
        if delays is None:      # scalars are broadcast by extend
            return q.extend((src,), t, None, **kw)
        return q.extend([src], [t], delays=[d / FS], **kw)
    if 'kw' in ex:
        return q.append(source=src, trials=t, delays=delays, **kw)
    if 'pos' in ex:
        return q.append(src, t, delays, *([kw['duration'], kw['metadata']] if kw else []))
    return q.append(src, t, delays=delays, **kw)


def do_pop(q, n, ex):
    if 'np' in ex:
        n = np.int64(n)
    if 'nodec' in ex:
        return q.pop_buffer(n, decrement=False)
    if 'kw' in ex:
        return q.pop_buffer(samples=n, decrement=True)
    return q.pop_buffer(n)


class BuildFailed(Exception):
    pass


# Exception classes with which Python reports a programming error, as opposed to the library refusing a request
# (ValueError, ZeroDivisionError, NotImplementedError ...): a well-formed history that ends in one of them has no
# stream at all, whatever a second object built alike does.
CRASHES = {'AttributeError', 'NameError', 'UnboundLocalError', 'KeyError', 'IndexError', 'TypeError', 'AssertionError',
           'RecursionError', 'SystemError', 'build:AttributeError', 'build:NameError', 'build:UnboundLocalError',
           'build:KeyError', 'build:IndexError', 'build:TypeError', 'build:AssertionError', 'build:RecursionError'}


class Broken:
    """Stands for a factory whose constructor raised: every draw reports that exception."""

    def __init__(self, e):
        self.name = type(e).__name__

    def next(self, n):
        raise BuildFailed(self.name)

    def reset(self):
        pass

    def get_duration(self):
        return 0.01

    def is_complete(self):
        return False

    def n_samples_remaining(self):
        raise BuildFailed(self.name)


def build_or_broken(spec, w):
    try:
        return build(spec, w)
    except Exception as e:  # noqa
        return Broken(e)


def eval_gen(case, v):
    """Pristine object of lineage v (fresh world); returns (object, last chunk or exception)."""
    w = World(case)
    obj = build_or_broken(case['specs'][v[1]], w)
    out = None
    for n in v[2]:
        try:
            out = obj.next(n)
        except Exception as e:  # noqa
            out = e
    return obj, out, w


def eval_gen_all(case, v):
    """One pristine object of lineage v: the packed chunk of every draw (= the reference of every prefix of v)."""
    obj = build_or_broken(case['specs'][v[1]], World(case))
    outs = []
    for n in v[2]:
        try:
            out = obj.next(n)
        except Exception as e:  # noqa
            out = e
        outs.append(pack(out))      # packed at once: nothing that happens later can change it
    return outs


def eval_queue(case, v, outs=None):
    """One pristine queue of lineage v; `outs` collects the packed buffer of every pop."""
    w = World(case)
    q = make_queue(v[1], v[2])
    out = None
    for e in v[3]:
        try:
            if e[0] == 'a':
                src, _, _ = eval_gen(case, e[1])
                do_append(q, src, e[2], e[3], e[4])
            elif e[0] == 'w':     # e[4]: the caller had overwritten its array before appending it
                do_append(q, np.full_like(w.arrays[e[1]], POISON) if e[4] else w.arrays[e[1]], e[2], e[3], e[5])
            else:
                out = do_pop(q, e[1], e[2])
        except Exception as ex:  # noqa
            out = ex
        if e[0] == 'p' and outs is not None:
            outs.append(pack(out))
    return out


def _ref_eval(kind, case, v):
    # All children of the pristine interpreter inherit one global RNG state: make the state under which the history
    # runs differ from the one under which references are computed (neither may matter).
    import random
    np.random.seed(0xC10 if kind == 'h' else 0x5EED)
    random.seed(0xC10 if kind == 'h' else 0x5EED)
    if kind == 'k':     # v: key descriptor of a stimulus-function call
        return freeze(invoke(v, World(case)))
    if kind == 'K':     # v: several key descriptors, each evaluated on emptied memo tables
        out = []
        for kd in v:
            if not clear_caches():
                return None     # memo implementation not recognised: the caller asks key by key
            out.append(freeze(invoke(kd, World(case))))
        return out
    if kind == 'g':
        return eval_gen_all(case, v)
    if kind == 'h':     # v: (which ops are malformed, references of the called keys)
        return play(case, v[0], v[1])
    outs = []
    eval_queue(case, v, outs)
    return outs


_ZYG = None     # (pid of the process that started it, Popen)


def clean_ref(kind, case, v):
    """Reference stream of lineage v, computed by harness.c10_zygote: a fresh interpreter in which no
    generator or queue was ever built (so no module- or class-level state of the library can leak into it)."""
    global _ZYG
    import atexit
    import struct
    import subprocess
    if _ZYG is None or _ZYG[0] != os.getpid() or _ZYG[1].poll() is not None:
        env = dict(os.environ)
        env['PYTHONPATH'] = VERIF_DIR + os.pathsep + env.get('PYTHONPATH', '')
        me = os.getpid()
        z = subprocess.Popen([sys.executable, '-m', 'harness.c10_zygote'], stdin=subprocess.PIPE,
                             stdout=subprocess.PIPE, cwd=VERIF_DIR, env=env, preexec_fn=lambda: leash(None, me))
        _ZYG = (os.getpid(), z)
        atexit.register(lambda z=z: (z.stdin.close(), z.wait(timeout=5)) if z.poll() is None else None)
    z = _ZYG[1]
    data = pickle.dumps((kind, case, v, child_cpu()))
    z.stdin.write(struct.pack('<I', len(data)) + data)
    z.stdin.flush()
    (n,) = struct.unpack('<I', z.stdout.read(4))
    st, val = pickle.loads(z.stdout.read(n))
    if st != 'ok':
        if 'CPU-s (killed)' in val:
            from . import framework
            framework._note_timeout()
        raise RuntimeError('evaluation in a pristine interpreter failed: ' + val)
    return val


def child_cpu():
    """CPU seconds one forked evaluation may burn: once two evaluations of this run have hit the limit the library is
    known to hang (already a violation) and the remaining ones get a short leash (the framework's shared counter)."""
    from . import framework
    t = getattr(framework, '_TIMEOUTS', None)
    n = t.value if t is not None else 0
    return CHILD_CPU if n < 2 else 5 if n < 8 else 2


_KREF = {}


def _bare(kd):
    return {k: kd[k] for k in ('fn', 'form', 'a', 'rep') if k in kd}


def ref_keys(case, kds):
    """The not yet known ones of several keys in one go (one child of the pristine interpreter, memo tables
    emptied before each)."""
    need = [kd for kd in kds if canon(_bare(kd)) not in _KREF]
    if len(need) > 1:
        vals = clean_ref('K', {'arrays': []}, [_bare(kd) for kd in need])
        for kd, val in zip(need, vals or []):
            _KREF[canon(_bare(kd))] = val


def ref_key(case, kd):
    """f(args) as a brand-new interpreter computes it (memo tables are module-level state); a key descriptor is
    self-contained, so the value is kept for the later cases of this process."""
    c = canon(_bare(kd))
    if c not in _KREF:
        _KREF[c] = clean_ref('k', {'arrays': []}, _bare(kd))
    return _KREF[c]


# --------------------------------------------------------------------------
# running a history against the real code
# --------------------------------------------------------------------------

def run_history(case):
    """One line per op. The lineage bookkeeping here is the oracle's statement of what each
    stream may depend on; the Lean model computes the same names independently."""
    ops = case['ops']
    keys = case.get('keys', [])
    # ---- pass 1: lineages, and pristine references for everything that will be observed
    lin = []            # per object: ('g', spec, chunks) | ('q', kind, param, events)
    want = []           # per op: None | 'bad' | lineage value at the observation
    nspec, narr = len(case.get('specs', [])), len(case.get('arrays', []))
    written = set()     # parameter arrays the caller has overwritten so far

    def obj(i, kind=None):
        if not (isinstance(i, int) and 0 <= i < len(lin)) or (kind and lin[i][0] != kind):
            raise IndexError
        return lin[i]

    def nat(*xs):
        if not all(isinstance(x, int) and x >= 0 for x in xs):
            raise IndexError

    for op in ops:
        o = op[0]
        wv = None
        try:
            if o == 'new':
                nat(op[1])
                if op[1] >= nspec:
                    raise IndexError
                lin.append(('g', op[1], ()))
            elif o == 'qnew':
                nat(op[2])
                if op[1] not in QUEUE_KINDS:
                    raise IndexError
                lin.append(('q', op[1], op[2], ()))
            elif o == 'next':
                v = obj(op[1], 'g')
                nat(op[2])
                lin[op[1]] = ('g', v[1], v[2] + (op[2],))
                wv = lin[op[1]]
            elif o == 'reset':
                v = obj(op[1], 'g')
                lin[op[1]] = ('g', v[1], ())
            elif o == 'copy':
                lin.append(obj(op[1]))
            elif o == 'clone':
                lin.append(obj(op[1], 'q'))
            elif o == 'append':
                q, g = obj(op[1], 'q'), obj(op[2], 'g')
                nat(op[3], op[4])
                lin[op[1]] = q[:3] + (q[3] + (('a', g, op[3], op[4], tuple(op[5:])),),)
            elif o == 'appendw':
                q = obj(op[1], 'q')
                nat(op[2], op[3], op[4])
                if op[2] >= narr:
                    raise IndexError
                lin[op[1]] = q[:3] + (q[3] + (('w', op[2], op[3], op[4], op[2] in written, tuple(op[5:])),),)
            elif o == 'pop':
                q = obj(op[1], 'q')
                nat(op[2])
                lin[op[1]] = q[:3] + (q[3] + (('p', op[2], tuple(op[3:])),),)
                wv = lin[op[1]]
            elif o == 'wwrite':
                nat(op[1])
                if op[1] >= narr:
                    raise IndexError
                written.add(op[1])
        except (IndexError, TypeError):
            wv = 'bad'
        want.append(wv)
    # One pristine object per maximal lineage: its successive chunks are the references of all prefixes.
    refs = {}
    wanted = {wv for wv in want if wv is not None and wv != 'bad'}
    for wv in sorted(wanted, key=lambda v: -len(v[-1])):
        if wv in refs:
            continue
        outs = clean_ref(wv[0], case, wv)
        if wv[0] == 'g':
            for i, o in enumerate(outs):
                refs.setdefault(('g', wv[1], wv[2][:i + 1]), o)
        else:
            pops = [j for j, e in enumerate(wv[3]) if e[0] == 'p']
            for j, o in zip(pops, outs):
                refs.setdefault(wv[:3] + (wv[3][:j + 1],), o)
    called = sorted({op[1] for op in ops if op[0] == 'call' and isinstance(op[1], int) and 0 <= op[1] < len(keys)})
    ref_keys(case, [keys[k] for k in called])
    kref = {k: ref_key(case, keys[k]) for k in called}

    # ---- pass 2: the history itself, in one world, in a child of the pristine interpreter (memo tables and every
    # other module-level state of the library as after import; nothing an earlier case did can show)
    out = []
    for k, r in enumerate(clean_ref('h', case, ([wv == 'bad' for wv in want], kref))):
        if isinstance(r, str):
            out.append(r)
            continue
        if r[1][0] == 'exc' and r[1][1] in CRASHES and want[k][0] == 'g':
            out.append(f'op raised {r[1][1]}')
            continue
        v = want[k]
        if v[0] == 'g':     # lineage before this chunk + this chunk
            name = g_name(('g', v[1], v[2][:-1])) + f'+{v[2][-1]}'
        else:
            name = q_name(v[:3] + (v[3][:-1],)) + f'+{v[3][-1][1]}'
        out.append(name if r[1] == refs[v] else f'{name} DIFF@{first_diff(r[1], refs[v])}')
    return out


def play(case, bad, kref):
    """The history itself, in one world.  One entry per op: the output line, or ('chunk', packed chunk) for what
    next/pop returned (the caller names it and compares it with the reference)."""
    ops = case['ops']
    keys = case.get('keys', [])
    w = World(case)
    objs, handles, returned, out = [], [], [], []
    for k, op in enumerate(ops):
        o = op[0]
        if bad[k]:
            out.append('bad-op')
            continue
        if o == 'key':
            out.append('ok')
        elif o == 'call':
            if not (0 <= op[1] < len(keys)):
                out.append('bad-op')
                continue
            try:
                res = invoke(keys[op[1]], w)
            except Exception as e:  # noqa
                out.append(f'EXC {type(e).__name__}')
                handles.append((op[1], None, ('val', 'None')))
                continue
            kind, rv = kref[op[1]]
            handles.append((op[1], res, (kind, [a.copy() for a in rv] if kind != 'val' else rv)))
            returned.extend(comps(res))
            out.append(f'h{len(handles) - 1} ' + dirty_positions(res, kref[op[1]]))
        elif o == 'read':
            if not (0 <= op[1] < len(handles)):
                out.append('bad-handle')
                continue
            # what the caller expects to find: the value it was handed plus its own writes
            kid, res, expect = handles[op[1]]
            out.append(dirty_positions(res, expect))
        elif o == 'mutate':
            if not (0 <= op[1] < len(handles)):
                out.append('bad-handle')
                continue
            cs = comps(handles[op[1]][1])
            if not (0 <= op[2] < len(cs)) or not (0 <= op[3] < cs[op[2]].size):
                out.append('bad-index')
                continue
            try:
                cs[op[2]].flat[op[3]] = POISON
                handles[op[1]][2][1][op[2]].flat[op[3]] = POISON
            except ValueError:      # a read-only result: nothing was written
                pass
            out.append('ok')
        elif o == 'scribble':
            for a in returned:
                try:
                    a[...] = POISON
                except ValueError:
                    pass
            for _, res, expect in handles:
                for a, e in zip(comps(res), expect[1] if expect[0] != 'val' else []):
                    if a.flags.writeable:
                        e[...] = POISON
            out.append('ok')
        elif o == 'seed':
            np.random.seed(op[1])
            out.append('ok')
        elif o == 'rand':
            np.random.rand(op[1])
            np.random.randint(0, 10, size=op[1])
            out.append('ok')
        elif o == 'wwrite':
            w.arrays[op[1]][...] = POISON
            out.append('ok')
        elif o == 'new':
            objs.append(build_or_broken(case['specs'][op[1]], w))
            out.append(f'o{len(objs) - 1}')
        elif o in ('qnew', 'copy', 'clone'):
            # (an exception the library raises here is reported on this line; a placeholder keeps the numbering)
            try:
                objs.append(make_queue(op[1], op[2]) if o == 'qnew' else
                            copy.deepcopy(objs[op[1]]) if o == 'copy' else objs[op[1]].clone())
                out.append(f'o{len(objs) - 1}')
            except Exception as e:  # noqa
                objs.append(Broken(e))
                out.append(f'o{len(objs) - 1} RAISED {type(e).__name__}: {str(e)[:80]}')
        elif o in ('reset', 'append', 'appendw'):
            try:
                if o == 'reset':
                    objs[op[1]].reset()
                elif o == 'append':
                    do_append(objs[op[1]], objs[op[2]], op[3], op[4], tuple(op[5:]))
                else:
                    do_append(objs[op[1]], w.arrays[op[2]], op[3], op[4], tuple(op[5:]))
                out.append('ok')
            except Exception as e:  # noqa
                out.append(f'ok RAISED {type(e).__name__}: {str(e)[:80]}')
        elif o in ('next', 'pop'):
            try:
                if o == 'next':     # a NumPy integer is the same request
                    got = objs[op[1]].next(np.int64(op[2]) if 'np' in op[3:] else op[2])
                else:
                    got = do_pop(objs[op[1]], op[2], tuple(op[3:]))
            except Exception as e:  # noqa
                got = e
            if isinstance(got, np.ndarray):
                returned.append(got)
            out.append(('chunk', pack(got)))     # packed at once: later writes cannot change it
        else:
            out.append('bad-op')
    return out



# --------------------------------------------------------------------------
# case generation
# --------------------------------------------------------------------------

# One representation of the numbers per history.  DISABLED demand (found by this pass, see notes/C10.md): the memo
# conflates 6.0 and np.float64(6.0) although NumPy computes differently with them (weak/strong scalar promotion), so
# mixing representations of the same value in one history is not asked for.
REPS = [None, None, None, 'np', 'int', 'flt']


def set_rep(spec, rep):
    node = spec
    while isinstance(node, dict):
        node.pop('rep', None)
        if rep and node['t'] != 'fixed':
            node['rep'] = rep
        node = node.get('in')
    return spec


def maybe(rng, spec, p, **fields):
    """With probability p give the spec the optional fields (non-default keyword arguments)."""
    if rng.random() < p:
        spec.update({k: (rng.choice(v) if isinstance(v, list) else v) for k, v in fields.items()})
    return spec


def leaf_spec(rng, narrays, finite=False):
    kinds = ['fixed', 'chirp', 'click', 'blclick', 'wav'] if finite else \
        ['tone', 'samtone', 'silence', 'square', 'bbn', 'bln', 'blneq', 'fir', 'shaped', 'fixed', 'chirp', 'click',
         'blclick', 'wav', 'bbn', 'tone']
    t = rng.choice(kinds)
    if t == 'fixed' and not narrays:
        t = 'chirp'
    return leaf_spec_of(rng, t, narrays)


def leaf_spec_of(rng, t, narrays):
    if t == 'tone':
        s = {'t': t, 'f': rng.choice([50.0, 100.0, 125.0]), 'level': rng.choice([1.0, 0.5]),
             'phase': rng.choice([0, 0.3]), 'pol': rng.choice([1, -1])}
        maybe(rng, s, 0.35, cal=[1, 2])
        return maybe(rng, s, 0.2, kw=1)
    if t == 'samtone':
        s = {'t': t, 'fc': rng.choice([200.0, 250.0]), 'fm': rng.choice([20.0, 40.0]), 'level': 1.0}
        maybe(rng, s, 0.3, depth=1, phase=[0.3, 0], plb=[0, 0.1], pub=[0, 0.2], pol=[1, -1])
        maybe(rng, s, 0.3, eq_power=[True, False], equalize=[True, False], cal=[1, 2])
        return s
    if t == 'silence':
        return maybe(rng, {'t': t, 'fill': rng.choice([0, 1])}, 0.3, kw=1)
    if t == 'square':
        return {'t': t, 'level': rng.choice([1.0, 2.0]), 'f': rng.choice([100.0, 125.0]),
                'duty': rng.choice([0.5, 0.25])}
    if t == 'bbn':
        s = {'t': t, 'level': rng.choice([1.0, 2.0]), 'seed': rng.choice([0, 1, 7, 2 ** 32 - 1]),
             'pol': rng.choice([1, -1])}
        maybe(rng, s, 0.25, cal=[0, 1])
        return maybe(rng, s, 0.2, kw=1)
    if t in ('bln', 'blneq'):
        s = {'t': t, 'seed': rng.choice([1, 3]), 'level': 1.0, 'fl': rng.choice([100.0, 120.0]), 'fh': 200.0,
             'rolloff': 1, 'pa': 1, 'sa': rng.choice([40, 60])}
        maybe(rng, s, 0.3, pol=[1, -1], dis=[False, True])
        if t == 'blneq':
            return maybe(rng, s, 0.5, cal=[0, 1])
        return maybe(rng, s, 0.25, cal=[1, 2])
    if t == 'fir':
        s = {'t': t, 'fl': 100.0, 'fh': rng.choice([200.0, 250.0]), 'level': 1.0, 'ntaps': rng.choice([11, 21]),
             'seed': rng.choice([2, 4])}
        maybe(rng, s, 0.3, window=['hann', 'hamming'], pol=[1, -1])
        return maybe(rng, s, 0.3, cal=[1, 2], equalize=[True, False], maxc=[3.0, 20.0])
    if t == 'shaped':
        s = {'t': t, 'level': 1.0, 'f1': 100.0, 'f2': rng.choice([300.0, 350.0]), 'ntaps': rng.choice([11, 21]),
             'seed': rng.choice([5, 6])}
        return maybe(rng, s, 0.3, window=['hann', 'hamming'], pol=[1, -1], cal=[0, 1])
    if t == 'fixed':
        return {'t': t, 'w': rng.randrange(narrays)}
    if t == 'chirp':
        s = {'t': t, 'f0': 50.0, 'f1': rng.choice([200.0, 300.0]), 'dur': rng.choice([0.02, 0.03]), 'level': 1.0,
             'window': rng.choice(['boxcar', 'hann'])}
        return maybe(rng, s, 0.3, cal=[1, 2], equalize=[True, False], maxc=[3.0, 20.0])
    if t == 'click':
        return maybe(rng, {'t': t, 'dur': rng.choice([0.005, 0.012]), 'level': rng.choice([0.0, 6.0]),
                           'pol': rng.choice([1, -1])}, 0.3, cal=[0, 1, 2])
    if t == 'blclick':
        s = {'t': t, 'flb': 50.0, 'fub': rng.choice([300.0, 400.0]), 'window': rng.choice([0.02, 0.03]),
             'level': 1.0}
        return maybe(rng, s, 0.3, cal=[1, 2], equalize=[True, False], maxc=[3.0, 20.0])
    s = {'t': 'wav', 'file': rng.choice(['a16.wav', 'b16.wav', 'c32.wav']), 'norm': rng.choice(['pe', None, 'rms'])}
    return maybe(rng, s, 0.4, level=[0.0, 6.0], cal=[0, 1])


def wrap_spec(rng, inner):
    t = rng.choice(['gate', 'env', 'cos2', 'sam', 'sqenv', 'notch', 'gate', 'cos2'])
    if t == 'gate':
        s = {'t': t, 'start': rng.choice([0.0, 0.003, 0.005]), 'dur': rng.choice([0.008, 0.01, 0.02]), 'in': inner}
        maybe(rng, s, 0.2, kw=1)
    elif t == 'env':
        s = {'t': t, 'window': rng.choice(['cosine-squared', 'hann']), 'dur': rng.choice([0.012, 0.02]),
             'rise': rng.choice([0.004, 0.005, None]), 'start': rng.choice([0, 0.002]), 'in': inner}
        maybe(rng, s, 0.3, tr=['half', 'neg', None])
    elif t == 'cos2':
        s = {'t': t, 'dur': rng.choice([0.012, 0.02]), 'rise': rng.choice([0.004, 0.005]),
             'start': rng.choice([0, 0.002]), 'in': inner}
        maybe(rng, s, 0.2, kw=1)
    elif t == 'sam':
        s = {'t': t, 'depth': rng.choice([1.0, 0.5]), 'fm': rng.choice([50.0, 40.0]),
             'delay': rng.choice([0.0, 0.004]), 'dir': rng.choice([1, 1, -1]), 'in': inner}
        maybe(rng, s, 0.3, onset=['silence_transition', 'ss_transition'])
    elif t == 'sqenv':
        s = {'t': t, 'depth': rng.choice([1.0, 1.0, 0.5]), 'fm': rng.choice([50.0, 40.0]),
             'duty': rng.choice([0.5, 0.5, 0.25]), 'alpha': rng.choice([0, 0.2]), 'in': inner}
        maybe(rng, s, 0.2, kw=1)
    else:
        s = {'t': 'notch', 'f': rng.choice([100.0, 150.0]), 'q': 1.33, 'in': inner}
    return s


def has_filter(spec):
    """an IIR lfilter state somewhere in the chain (the FIR ones raise ValueError on an empty request: harmless)"""
    return spec['t'] in ('notch', 'bln') or ('in' in spec and has_filter(spec['in']))


def is_finite(spec):
    t = spec['t']
    if t in ('fixed', 'chirp', 'click', 'blclick', 'wav', 'gate', 'env', 'cos2', 'repeat'):
        return True
    if t in ('sam', 'sqenv', 'notch'):
        return is_finite(spec['in'])
    return False


def random_spec(rng, narrays, finite=False, rep=None):
    s = leaf_spec(rng, narrays)
    depth = rng.choice([0, 1, 1, 2])
    for _ in range(depth):
        s = wrap_spec(rng, s)
    if finite and not is_finite(s):
        s = {'t': rng.choice(['gate', 'cos2']), 'start': 0.002, 'dur': rng.choice([0.01, 0.012]), 'rise': 0.004,
             'in': s}
    if rng.random() < 0.08:
        # repeat needs a short finite input: an enveloped carrier of 12 samples in a 25-sample period
        s = {'t': 'repeat', 'n': 2, 'skip': rng.choice([0, 1]), 'rate': 40.0, 'delay': rng.choice([0.0, 0.002]),
             'in': {'t': 'cos2', 'dur': 0.012, 'rise': 0.004, 'start': 0, 'in': leaf_spec(rng, narrays)}}
    return set_rep(s, rep)


def random_arrays(rng, k, tiny=False):
    out = []
    for _ in range(k):
        n = rng.choice([12, 20, 30] + ([0, 1, 2] if tiny else []))
        out.append([round(rng.uniform(-1, 1), 3) or 0.5 for _ in range(n)])
    return out


def random_dtypes(rng, k):
    """dtype per parameter array (None = float64): the API takes any ndarray"""
    return [rng.choice([None, None, None, 'float32', 'int16', 'int32']) for _ in range(k)]


def keys_for_spec(spec, chunks):
    """Key descriptors of the memoised calls a factory of this spec makes when drawn in `chunks`."""
    out = []
    t = spec['t']
    rep = {'rep': spec['rep']} if spec.get('rep') else {}
    if t in ('env', 'cos2'):
        off = 0
        for n in chunks:
            a = {'window': spec.get('window', 'cosine-squared'), 'dur': spec['dur'], 'rise': spec['rise'],
                 'offset': off, 'start': spec['start'], 'samples': n}
            if spec.get('tr'):
                a['tr'] = spec['tr']
            out.append(dict({'fn': 'envelope', 'form': 'kw', 'a': a}, **rep))
            off += n
    if t == 'sam' and (spec['dir'] == 1 or spec.get('onset') == 'silence_transition'):
        off = 0
        for n in chunks:
            out.append(dict({'fn': '_sam_envelope', 'form': 'pi' if spec.get('onset') == 'silence_transition' else 'eq',
                             'a': {'offset': off, 'samples': n, 'depth': spec['depth'], 'fm': spec['fm'],
                                   'delay': spec['delay']}}, **rep))
            off += n
    if t in ('bln', 'blneq'):
        out.append(dict({'fn': 'blfilter', 'form': 'pos',
                         'a': {k: spec[k] for k in ('fl', 'fh', 'rolloff', 'pa', 'sa')}}, **rep))
    if t == 'blneq':
        out.append(dict({'fn': 'bliir', 'form': 'pos', 'a': {'fl': spec['fl'], 'fh': spec['fh'],
                                                             'cal': spec.get('cal', 0)}}, **rep))
    if t == 'wav' and not ('level' in spec and spec['norm'] is None):
        a = {'file': spec['file'], 'norm': spec['norm']}
        if 'level' in spec:
            a.update(level=spec['level'], cal=spec['cal'])
        out.append(dict({'fn': 'load_wav', 'form': 'factory', 'a': a}, **rep))
    if 'in' in spec:
        out.extend(keys_for_spec(spec['in'], chunks))
    return out


def random_key(rng, rep=None):
    kd = random_key_of(rng)
    if rep:
        kd['rep'] = rep
    return kd


def random_key_of(rng):
    fn = rng.choice(['envelope', 'envelope', 'cos2envelope', 'cos2envelope', 'sam_envelope', '_sam_envelope',
                     'sam_eq_power', 'sam_eq_phase', 'blfilter', 'bliir', 'load_wav', 'load_wav', 'plain', 'plain'])
    env_a = lambda: {'dur': rng.choice([0.012, 0.02]), 'rise': rng.choice([0.004, 0.005]),  # noqa
                     'offset': rng.choice([0, 3, 7]), 'start': rng.choice([0, 0.002]),
                     'samples': rng.choice([5, 9, 20, 0])}
    if fn == 'envelope':
        form = rng.choice(['pos', 'kw', 'ramped', 'pos_tr'])
        a = env_a()
        a['window'] = rng.choice(['cosine-squared', 'hann'])
        if form == 'ramped':
            a = {'window': a['window'], 'rise': a['rise'], 'dur': a['dur']}
        elif form == 'pos_tr' or (form == 'kw' and rng.random() < 0.3):
            a['tr'] = rng.choice(['half', 'neg', None])
        return {'fn': fn, 'form': form, 'a': a}
    if fn == 'cos2envelope':
        form = rng.choice(['pos', 'short', 'kw'])
        a = env_a()
        if form == 'short':
            a = {'dur': a['dur'], 'rise': a['rise']}
        return {'fn': fn, 'form': form, 'a': a}
    if fn in ('sam_envelope', '_sam_envelope'):
        form = rng.choice(['eq', 'pi', 'kw'] if fn == '_sam_envelope' else ['pos', 'kw_eq', 'kw'])
        return {'fn': fn, 'form': form,
                'a': {'offset': rng.choice([0, 4]), 'samples': rng.choice([6, 10]), 'depth': rng.choice([1.0, 0.5]),
                      'fm': 50.0, 'delay': rng.choice([0.0, 0.004])}}
    if fn == 'sam_eq_power':
        return {'fn': fn, 'form': rng.choice(['pos', 'kw']), 'a': {'depth': rng.choice([1.0, 0.5])}}
    if fn == 'sam_eq_phase':
        return {'fn': fn, 'form': rng.choice(['pos', 'kw', 'kw_dir']),
                'a': {'delay': 0.0, 'depth': rng.choice([1.0, 0.5, 0]), 'dir': rng.choice([1, -1])}}
    if fn == 'blfilter':
        return {'fn': fn, 'form': rng.choice(['pos', 'pos', 'kw', 'allkw']),
                'a': {'fl': rng.choice([100.0, 120.0]), 'fh': 200.0, 'rolloff': 1, 'pa': 1, 'sa': rng.choice([40, 60])}}
    if fn == 'bliir':
        return {'fn': fn, 'form': rng.choice(['pos', 'kw']),
                'a': {'fl': rng.choice([100.0, 120.0]), 'fh': 200.0, 'cal': rng.choice([0, 1])}}
    if fn == 'load_wav':
        a = {'file': rng.choice(['a16.wav', 'b16.wav', 'c32.wav']), 'norm': rng.choice(['pe', None, 'rms'])}
        form = rng.choice(['factory', 'factory', 'kwnorm', 'posnorm', 'path', 'allkw', 'short', 'dflt'])
        if form == 'dflt':
            return {'fn': fn, 'form': form, 'a': dict(a, norm=None), 'omit': True}
        if form == 'short':
            a['norm'] = None
        elif form == 'factory' and a['norm'] is not None and rng.random() < 0.5:
            a.update(level=rng.choice([0.0, 6.0]), cal=rng.choice([0, 1]))
        return {'fn': fn, 'form': form, 'a': a}
    return plain_key(rng)


def plain_key(rng, name=None):
    """A call of one of the plain (not memoised) stimulus functions."""
    name = name or rng.choice(PLAIN)
    a = {'level': rng.choice([1.0, 0.5]), 'dur': rng.choice([0.012, 0.02]), 'seed': rng.choice([1, 3]),
         'pol': rng.choice([1, -1]), 'offset': rng.choice([0, 3]), 'samples': rng.choice([6, 10])}
    a.update({'tone': {'f': rng.choice([100.0, 125.0]), 'phase': rng.choice([0, 0.3])},
              'sam_tone': {'fc': 200.0, 'fm': rng.choice([20.0, 40.0])},
              'square_wave': {'depth': rng.choice([1.0, 0.5]), 'fm': 50.0, 'duty': 0.5, 'alpha': rng.choice([0, 0.2])},
              'broadband_noise': {}, 'notch_noise': {'f': rng.choice([100.0, 150.0])},
              'bandlimited_noise': {'fl': rng.choice([100.0, 120.0]), 'fh': 200.0, 'sa': rng.choice([40, 60])},
              'bandlimited_fir_noise': {'fl': 100.0, 'fh': rng.choice([200.0, 250.0]), 'ntaps': rng.choice([11, 21])},
              'shaped_noise': {'f1': rng.choice([100.0, 150.0]), 'ntaps': rng.choice([11, 21])},
              'chirp': {'f0': 50.0, 'f1': rng.choice([200.0, 300.0]), 'maxc': rng.choice([3.0, 20.0])},
              'bandlimited_click': {'flb': 50.0, 'fub': rng.choice([300.0, 400.0]), 'window': rng.choice([0.02, 0.03]),
                                    'maxc': rng.choice([3.0, 20.0])},
              'repeat': {'wave': [round(rng.uniform(-1, 1), 3) for _ in range(rng.choice([3, 6]))], 'n': 2,
                         'skip': rng.choice([0, 1]), 'rate': 100.0, 'delay': rng.choice([0.0, 0.002])},
              'ramped_tone': {'f': 100.0, 'rise': rng.choice([0.004, 0.005, None]), 'phase': rng.choice([0, 0.3]),
                              'window': rng.choice(['cosine-squared', 'hann'])},
              'cos2ramp': {}}[name])
    if name in DFLT_PLAIN and rng.random() < 0.35:
        return {'fn': 'f:' + name, 'form': 'dflt', 'a': a, 'omit': True}
    return {'fn': 'f:' + name, 'form': rng.choice(['pos', 'kw']), 'a': a}


DFLT_PLAIN = ('tone', 'sam_tone', 'square_wave', 'broadband_noise', 'notch_noise', 'bandlimited_noise', 'chirp',
              'bandlimited_click', 'ramped_tone')


_KPERT = {'dur': lambda v, r: 0.02 if v != 0.02 else 0.016, 'rise': lambda v, r: 0.003, 'offset': lambda v, r: v + 1,
          'start': lambda v, r: 0.001 if v != 0.001 else 0.003, 'samples': lambda v, r: v + 1,
          'x': lambda v, r: v + 1, 'depth': lambda v, r: 0.75 if v != 0.75 else 0.5, 'fm': lambda v, r: v + 10.0,
          'delay': lambda v, r: v + 0.002, 'dir': lambda v, r: -v, 'fl': lambda v, r: v + 10.0,
          'sa': lambda v, r: v + 10, 'cal': lambda v, r: 1 - v, 'level': lambda v, r: v * 2.0 if v else 3.0,
          'seed': lambda v, r: v + 1, 'pol': lambda v, r: -v, 'f': lambda v, r: v + 25.0,
          'phase': lambda v, r: v + 0.25, 'f1': lambda v, r: v + 20.0, 'ntaps': lambda v, r: v + 2,
          'fub': lambda v, r: v + 50.0, 'alpha': lambda v, r: 0.4, 'skip': lambda v, r: v + 1,
          'window': lambda v, r: {'hann': 'cosine-squared', 'cosine-squared': 'hann'}.get(v, v),
          'tr': lambda v, r: 'neg' if v == 'half' else 'half',
          'norm': lambda v, r: 'rms' if v == 'pe' else 'pe',
          'file': lambda v, r: 'a16.wav' if v != 'a16.wav' else 'b16.wav'}


def sibling_key(rng, kd):
    """The same call with exactly one argument changed (a memo key that is too coarse conflates the two)."""
    a = kd['a']
    sites = [k for k in a if k in _KPERT and a[k] is not None and not isinstance(a[k], list)]
    if kd['fn'] == 'load_wav' and kd['form'] in ('short', 'dflt'):
        sites = ['file']
    if kd['fn'] == 'load_wav' and kd['form'] == 'factory' and a['norm'] is not None and 'level' not in a \
            and rng.random() < 0.5:
        return dict(kd, a=dict(a, level=6.0, cal=rng.choice([0, 1])))     # the same file, now scaled
    if kd['fn'].startswith('f:'):
        sites = [k for k in sites if k not in ('level', 'seed', 'pol', 'offset', 'samples', 'dur')] or sites
    if not sites:
        return None
    k = rng.choice(sites)
    v = _KPERT[k](a[k], rng)
    if v == a[k]:
        return None
    return dict(kd, a=dict(a, **{k: v}))


_LENS = {}
_LENS_HANGS = [0]


class _Stuck(BaseException):
    """raised by cpu_limit (a BaseException: `except Exception` inside the library lets it through)"""


class cpu_limit:
    """with cpu_limit(s): ... raises _Stuck once the block has burnt s CPU seconds (ITIMER_PROF; main thread only;
    the timer and handler that were running -- the framework's generation watchdog -- are put back afterwards)"""

    def __init__(self, seconds):
        self.seconds = seconds

    @staticmethod
    def _raise(signum, frame):
        raise _Stuck()

    def __enter__(self):
        import signal
        self.handler = signal.signal(signal.SIGPROF, self._raise)
        self.timer = signal.setitimer(signal.ITIMER_PROF, self.seconds, 1)

    def __exit__(self, *a):
        import signal
        signal.setitimer(signal.ITIMER_PROF, 0)
        signal.signal(signal.SIGPROF, self.handler)
        if self.timer[0] > 0:
            signal.setitimer(signal.ITIMER_PROF, *self.timer)
        return False


def key_lens(kd):
    """Component lengths of a memoised result (needed by the model to build its arrays)."""
    c = canon(kd)
    if c not in _LENS:
        def f():
            w = World({'arrays': []})
            return [int(a.size) for a in comps(invoke(kd, w))]
        _stim()             # (imported outside the limited block: an interrupted import leaves a broken module behind)
        World({'arrays': []})
        try:
            with cpu_limit(20 if _LENS_HANGS[0] < 3 else 0.3):
                _LENS[c] = pristine(f)
        except Exception:  # noqa  (the call itself fails: the history that contains it reports that, with a replay)
            return []
        except _Stuck:     # (the call never returns: likewise -- the history runs under a CPU limit of its own)
            _LENS_HANGS[0] += 1
            _LENS[c] = []
    return _LENS[c]


def close_keys(kds):
    """Deduplicate, add the inner key of every wrapper key, attach lens and inner index."""
    seen, out = {}, []

    def add(kd):
        kd = {k: kd[k] for k in ('fn', 'form', 'a', 'rep', 'omit') if k in kd and (k != 'rep' or kd[k])}
        c = canon(kd)
        if c in seen:
            return seen[c]
        ik = inner_key(kd)
        ii = add(ik) if ik is not None else None
        seen[c] = len(out)
        kd['lens'] = key_lens(kd)
        kd['inner'] = ii
        out.append(kd)
        return seen[c]

    idx = [add(kd) for kd in kds]
    return out, idx


CHUNKS = [1, 2, 3, 4, 5, 7, 8, 11, 13]
# also: nothing at all, and the structural lengths (array sizes, gate/envelope ends) and their neighbours
EDGE_CHUNKS = [0, 1, 9, 10, 11, 12, 13, 19, 20, 21, 23, 29, 30, 31]
APPEND_EX = [[], [], [], ['ext'], ['kw'], ['pos'], ['meta'], ['ext', 'meta'], ['pos', 'meta'], ['cyc'], ['tnp'],
             ['none'], ['ext', 'none']]
POP_EX = [[], [], [], [], ['np'], ['kw'], ['nodec']]


def chunk(rng):
    return rng.choice(EDGE_CHUNKS) if rng.random() < 0.25 else rng.choice(CHUNKS)


def queue_param(rng, kind):
    """brand: the seed; fifo/inter: < 100 the plain class, >= 100 grouped (size p-100) / keep_complete_waveforms=False"""
    if kind == 'brand':
        return rng.choice([0, 1, 5, 2 ** 32 - 1])
    if kind == 'fifo':
        return rng.choice([0, 1, 5, 101, 102, 103])
    if kind == 'inter':
        return rng.choice([0, 1, 100])
    return rng.choice([0, 1, 5])


class Builder:
    """Accumulates a well-formed history."""

    def __init__(self, rng, kind):
        self.rng = rng
        self.case = {'kind': kind, 'specs': [], 'arrays': [], 'keys': [], 'ops': []}
        self.objs = []       # 'g' | 'q' per object id
        self.ospec = []      # spec index per object (None for queues)
        self.nh = 0          # number of handles
        self.hkey = []       # key index per handle

    def op(self, *a):
        self.case['ops'].append(list(a))

    def new(self, s):
        self.op('new', s)
        self.objs.append('g')
        self.ospec.append(s)
        return len(self.objs) - 1

    def qnew(self, kind, param):
        self.op('qnew', kind, param)
        self.objs.append('q')
        self.ospec.append(None)
        return len(self.objs) - 1

    def copy(self, o):
        self.op('copy', o)
        self.objs.append(self.objs[o])
        self.ospec.append(self.ospec[o])
        return len(self.objs) - 1

    def clone(self, o):
        self.op('clone', o)
        self.objs.append('q')
        self.ospec.append(None)
        return len(self.objs) - 1

    def call(self, k):
        self.op('call', k)
        self.hkey.append(k)
        self.nh += 1
        return self.nh - 1

    def mutate_some(self, h):
        lens = self.case['keys'][self.hkey[h]]['lens']
        if not lens:
            return
        c = self.rng.randrange(len(lens))
        if lens[c] == 0:
            return
        for _ in range(self.rng.choice([1, 1, 2])):
            self.op('mutate', h, c, self.rng.randrange(lens[c]))

    def noise(self):
        """An op the prediction ignores."""
        r = self.rng.random()
        if r < 0.35:
            self.op('seed', self.rng.randrange(100))
        elif r < 0.6:
            self.op('rand', self.rng.choice([1, 3, 8]))
        elif r < 0.85:
            self.op('scribble')
        elif self.nh:
            self.mutate_some(self.rng.randrange(self.nh))

    def next(self, o, n):
        # (an empty request to a generator with an IIR lfilter state used to store SciPy's uninitialised final state:
        # repaired by fix 434292a and asked for since)
        self.op('next', o, n, *(['np'] if self.rng.random() < 0.15 else []))

    def pop(self, q, n):
        self.op('pop', q, n, *self.rng.choice(POP_EX))

    def audit_arrays(self, skip=()):
        """Everything that was passed in must come back as it was: a generator built NOW over each parameter array
        (the caller did not write into it) must produce the stream of that array."""
        c = self.case
        for i, a in enumerate(c['arrays']):
            if i in skip:
                continue
            c['specs'].append({'t': 'fixed', 'w': i})
            o = self.new(len(c['specs']) - 1)
            self.op('next', o, len(a) + 2)

    def gens(self):
        return [i for i, t in enumerate(self.objs) if t == 'g']

    def queues(self):
        return [i for i, t in enumerate(self.objs) if t == 'q']

    def sweep(self):
        for i, t in enumerate(self.objs):
            n = self.rng.choice([4, 6, 9])
            self.op('next' if t == 'g' else 'pop', i, n if t == 'g' else n + 20)


def gen_cache_case(rng):
    b = Builder(rng, 'cache')
    rep = rng.choice(REPS)
    kds = [random_key(rng) for _ in range(rng.choice([1, 2, 3]))]
    if rng.random() < 0.5:
        # a wrapper together with the call it wraps, and the factory-form of the same envelope
        a = {'dur': 0.02, 'rise': 0.005, 'offset': rng.choice([0, 3]), 'start': 0, 'samples': rng.choice([7, 20])}
        kds += [{'fn': 'cos2envelope', 'form': 'pos', 'a': a},
                {'fn': 'envelope', 'form': 'kw', 'a': dict(a, window='cosine-squared')}]
    if rng.random() < 0.3:
        # the same value handed to different optional parameters, positionally and by keyword
        x = rng.choice([1, 2, 16])
        if rng.random() < 0.5:
            # (start_time=x is x seconds of envelope; 16 s = 16020 cells per call cost the model half its run time)
            x = min(x, 5)
            a = {'window': rng.choice(['cosine-squared', 'hann']), 'dur': 0.02, 'rise': 0.005, 'x': x}
            kds += [{'fn': 'envelope', 'form': 'pos_off', 'a': a}, {'fn': 'envelope', 'form': 'kw_start', 'a': dict(a)}]
        else:
            a = {'dur': 0.02, 'rise': 0.005, 'x': x}
            kds += [{'fn': 'cos2envelope', 'form': 'pos_off', 'a': a}, {'fn': 'cos2envelope', 'form': 'kw_samples', 'a': dict(a)}]
        if rng.random() < 0.5:
            kds[-2:] = kds[-2:][::-1]
    first = []
    if rng.random() < 0.5:
        # the same call with one argument changed, called back to back: each must get its own value
        kd = rng.choice([k for k in kds if k['form'] != 'kw_start'])     # (that one is seconds long: model time)
        sib = sibling_key(rng, kd)
        pair = [kd] + ([sib] if sib is not None else [])
        if rng.random() < 0.5:
            pair = pair[::-1]
        kds += pair
        first = pair
    elif rng.random() < 0.2:
        # two calls that differ in a callable argument only
        a = {'window': rng.choice(['cosine-squared', 'hann']), 'dur': 0.02, 'rise': 0.005, 'offset': rng.choice([0, 3]),
             'start': 0, 'samples': rng.choice([7, 20])}
        form = rng.choice(['kw', 'pos_tr'])
        first = [{'fn': 'envelope', 'form': form, 'a': dict(a, tr=t)} for t in rng.sample(['half', 'neg', None], 2)]
        kds += first
    if rep:
        kds = [dict(kd, rep=rep) for kd in kds]
    b.case['keys'], idx = close_keys(kds)
    nk = len(b.case['keys'])
    for j in range(len(kds) - len(first), len(kds)):
        b.call(idx[j])
    for _ in range(rng.randint(3, 10)):
        r = rng.random()
        if r < 0.5 or not b.nh:
            b.call(rng.randrange(nk))
        elif r < 0.8:
            b.mutate_some(rng.randrange(b.nh))
        elif r < 0.9:
            b.op('read', rng.randrange(b.nh))
        else:
            b.noise()
    for k in range(nk):
        b.call(k)
    return b.case


def gen_gen_case(rng, mixed=False):
    b = Builder(rng, 'mixed' if mixed else 'gen')
    c = b.case
    c['arrays'] = random_arrays(rng, rng.choice([0, 1, 2]), tiny=True)
    c['adtypes'] = random_dtypes(rng, len(c['arrays']))
    ns = rng.choice([1, 2, 2, 3])
    rep = rng.choice(REPS)
    c['specs'] = [random_spec(rng, len(c['arrays']), rep=rep) for _ in range(ns)]
    if len(c['arrays']) and rng.random() < 0.5:
        # two different generators over the same parameter array
        c['specs'].append({'t': 'fixed', 'w': 0})
        c['specs'].append({'t': 'gate', 'start': 0.003, 'dur': 0.008, 'in': {'t': 'fixed', 'w': 0}})
    nspec = len(c['specs'])
    plan = [rng.choice(CHUNKS) for _ in range(3)]
    if mixed:
        kds = []
        for s in c['specs']:
            kds += keys_for_spec(s, plan)
        kds = kds[:6] or [random_key(rng, rep)]
        c['keys'], _ = close_keys(kds)
    nk = len(c['keys'])
    pos = {}
    for _ in range(rng.randint(4, 12)):
        r = rng.random()
        g = b.gens()
        if r < 0.2 or not g:
            o = b.new(rng.randrange(nspec))
            pos[o] = 0
        elif r < 0.55:
            o = rng.choice(g)
            n = plan[pos.get(o, 0) % 3] if mixed and rng.random() < 0.8 else chunk(rng)
            b.next(o, n)
            pos[o] = pos.get(o, 0) + 1
        elif r < 0.67:
            o = rng.choice(g)
            b.op('reset', o)
            pos[o] = 0
        elif r < 0.77:
            o = rng.choice(g)
            pos[b.copy(o)] = pos.get(o, 0)
        elif mixed and nk and r < 0.9:
            h = b.call(rng.randrange(nk))
            b.mutate_some(h)
        else:
            b.noise()
    # every live object reset or not, then drawn: the stream of each must be the predicted one
    for o in b.gens():
        if rng.random() < 0.4:
            b.op('reset', o)
    if rng.random() < 0.5:
        b.op('scribble')
    b.sweep()
    if c['arrays'] and rng.random() < 0.5:
        b.audit_arrays()
    for k in range(nk):
        b.call(k)
    return c


_PERTURB = {'level': lambda v, r: v * r.choice([10.0, 0.1, 2.0]) if v else 3.0, 'seed': lambda v, r: v + r.choice([1, 2]),
            'pol': lambda v, r: -v, 'phase': lambda v, r: v + 0.25, 'depth': lambda v, r: 0.75 if v != 0.75 else 0.5,
            'f': lambda v, r: v + 25.0, 'fc': lambda v, r: v + 10.0, 'fm': lambda v, r: v + 10.0,
            'fill': lambda v, r: 1 - v, 'duty': lambda v, r: 0.75 - v, 'fl': lambda v, r: v + 10.0,
            'sa': lambda v, r: v + 10, 'ntaps': lambda v, r: v + 2, 'f2': lambda v, r: v + 20.0,
            'f1': lambda v, r: v + 20.0, 'fh': lambda v, r: v + 20.0, 'fub': lambda v, r: v + 50.0,
            'start': lambda v, r: v + 0.001, 'delay': lambda v, r: v + 0.002, 'dir': lambda v, r: -v,
            'alpha': lambda v, r: v + 0.2, 'q': lambda v, r: v + 1.0, 'cal': lambda v, r: (v + 1) % 2,
            'plb': lambda v, r: v + 0.1, 'pub': lambda v, r: v + 0.1, 'maxc': lambda v, r: v + 1.0,
            'skip': lambda v, r: 1 - v, 'tr': lambda v, r: 'neg' if v == 'half' else 'half'}


def perturb_spec(rng, spec):
    """A copy of spec that differs in exactly one scalar parameter (level, seed, polarity, ...), or None."""
    s = copy.deepcopy(spec)
    sites, node = [], s
    while isinstance(node, dict):
        sites += [(node, 'tr')] * 3 if node.get('tr') else []      # two envelopes that differ in the callable only
        sites += [(node, k) for k in node if k in _PERTURB and isinstance(node[k], (int, float))
                  and not isinstance(node[k], bool) and not (k == 'seed' and node[k] >= 2 ** 32 - 2)
                  and not (k == 'f1' and node['t'] == 'shaped')]
        node = node.get('in')
    if not sites:
        return None
    cals = [x for x in sites if x[1] == 'cal']
    node, k = rng.choice(cals if cals and rng.random() < 0.5 else sites)    # same stimulus, other calibration object
    node[k] = _PERTURB[k](node[k], rng)
    return s


def gen_sibling_case(rng):
    """Two generators whose parameters differ in one scalar, built and drawn one after the other: the second
    must not start from anything the first one left behind (shared warm-up, cached filter state, ...)."""
    b = Builder(rng, 'gen')
    c = b.case
    c['arrays'] = random_arrays(rng, rng.choice([0, 1]))
    rep = rng.choice(REPS)
    for _ in range(20):
        a = random_spec(rng, len(c['arrays']), rep=rep)
        if rng.random() < 0.1:
            # one file / one filter design, presented through two calibrations or at two levels
            a = set_rep(rng.choice([
                {'t': 'wav', 'file': rng.choice(['a16.wav', 'b16.wav']), 'norm': rng.choice(['pe', 'rms']),
                 'level': rng.choice([0.0, 6.0]), 'cal': rng.choice([0, 1])},
                {'t': 'blneq', 'seed': 1, 'level': 1.0, 'fl': 100.0, 'fh': 200.0, 'rolloff': 1, 'pa': 1, 'sa': 40,
                 'cal': rng.choice([0, 1])},
                {'t': 'env', 'window': 'hann', 'dur': 0.02, 'rise': 0.005, 'start': 0, 'tr': rng.choice(['half', 'neg']),
                 'in': leaf_spec(rng, len(c['arrays']))}]), rep)
        sib = perturb_spec(rng, a)
        if sib is not None:
            break
    else:
        a, sib = {'t': 'bbn', 'level': 1.0, 'seed': 0, 'pol': 1}, {'t': 'bbn', 'level': 10.0, 'seed': 0, 'pol': 1}
    c['specs'] = [a, sib]
    order = [0, 1] if rng.random() < 0.5 else [1, 0]
    o1 = b.new(order[0])
    for _ in range(rng.randint(0, 2)):
        b.next(o1, chunk(rng))
    if rng.random() < 0.5:
        b.op('reset', o1)
    o2 = b.new(order[1])
    b.next(o2, chunk(rng))
    b.next(o1, chunk(rng))
    if rng.random() < 0.5:
        b.op('reset', o2)
        b.next(o2, chunk(rng))
    b.sweep()
    return c


def gen_hist_case(rng):
    """Unusual but legal orders on one or two generators: reset before anything was drawn / twice in a row / after
    completion, copies taken before the first draw and of copies, empty and oversized requests, the caller
    overwriting every chunk as soon as it gets it."""
    b = Builder(rng, 'gen-hist')
    c = b.case
    c['arrays'] = random_arrays(rng, rng.choice([0, 1]), tiny=True)
    c['adtypes'] = random_dtypes(rng, len(c['arrays']))
    rep = rng.choice(REPS)
    c['specs'] = [random_spec(rng, len(c['arrays']), finite=rng.random() < 0.5, rep=rep)
                  for _ in range(rng.choice([1, 2]))]
    objs = [b.new(0)]
    scrib = rng.random() < 0.4
    for _ in range(rng.randint(3, 7)):
        o = rng.choice(objs)
        ph = rng.choice(['reset0', 'reset2', 'finish', 'copy0', 'copycopy', 'zero', 'big', 'new', 'noise', 'draw'])
        if ph == 'reset0':          # reset although nothing was drawn since the last reset / construction
            b.op('reset', o)
            b.next(o, chunk(rng))
            b.op('reset', o)
        elif ph == 'reset2':
            b.next(o, chunk(rng))
            b.op('reset', o)
            b.op('reset', o)
        elif ph == 'finish':        # far past the end of a finite generator, then used again
            b.next(o, rng.choice([40, 64, 100]))
            b.next(o, rng.choice([1, 5]))
            b.op('reset', o)
        elif ph == 'copy0':
            o2 = b.new(rng.randrange(len(c['specs'])))
            objs += [o2, b.copy(o2)]
        elif ph == 'copycopy':
            b.next(o, chunk(rng))
            o2 = b.copy(o)
            b.op('reset', o)
            objs += [o2, b.copy(o2)]
        elif ph == 'zero':
            b.next(o, 0)
            b.next(o, rng.choice([0, 1]))
        elif ph == 'big':
            b.next(o, rng.choice([1, 2]))
            b.next(o, rng.choice([257, 1000, 4099]))
            b.next(o, 1)
        elif ph == 'new':
            objs.append(b.new(rng.randrange(len(c['specs']))))
        elif ph == 'noise':
            b.noise()
        else:
            b.next(o, chunk(rng))
        if scrib:
            b.op('scribble')
    b.sweep()
    if c['arrays']:
        b.audit_arrays()
    return c


RESET_LEAVES = ['bbn', 'bln', 'blneq', 'fir', 'shaped', 'tone', 'samtone', 'square', 'fixed', 'chirp', 'click', 'blclick',
                'wav', 'silence']
RESET_WRAPS = [None, 'notch', 'gate', 'env', 'cos2', 'sam', 'sqenv', 'repeat']


def gen_reset_case(rng, k):
    """reset() must bring back the stream of a fresh object: every leaf kind in turn (k), bare or under every kind of
    wrapper, options at random; drawn partially / to completion and beyond / not at all, reset, drawn again; a copy
    taken before the reset keeps the old position; a second reset changes nothing."""
    b = Builder(rng, 'gen-reset')
    c = b.case
    c['arrays'] = random_arrays(rng, 1, tiny=rng.random() < 0.2)
    c['adtypes'] = random_dtypes(rng, 1)
    s = leaf_spec_of(rng, RESET_LEAVES[k % len(RESET_LEAVES)], 1)
    wrap = RESET_WRAPS[(k // len(RESET_LEAVES)) % len(RESET_WRAPS)]
    if wrap == 'repeat':
        s = {'t': 'repeat', 'n': 2, 'skip': rng.choice([0, 1]), 'rate': 40.0, 'delay': rng.choice([0.0, 0.002]),
             'in': {'t': 'cos2', 'dur': 0.012, 'rise': 0.004, 'start': 0, 'in': s}}
    elif wrap is not None:
        for _ in range(50):
            w = wrap_spec(rng, s)
            if w['t'] == wrap:
                s = w
                break
    c['specs'] = [set_rep(s, rng.choice(REPS))]
    o = b.new(0)
    end = rng.choice([12, 20, 30, 40, 64])      # at or beyond the end of every finite stimulus generated here
    first = rng.choice(['none', 'part', 'part', 'parts', 'end', 'beyond'])
    if first == 'part':
        b.next(o, chunk(rng))
    elif first == 'parts':
        for _ in range(rng.randint(2, 4)):
            b.next(o, chunk(rng))
    elif first == 'end':
        b.next(o, end)
    elif first == 'beyond':
        b.next(o, end)
        b.next(o, rng.choice([1, 5, 30]))
    o2 = b.copy(o) if rng.random() < 0.3 else None
    if rng.random() < 0.3:
        b.noise()
    b.op('reset', o)
    if rng.random() < 0.25:
        b.op('reset', o)
    for _ in range(rng.randint(1, 3)):
        b.next(o, chunk(rng))
    if o2 is not None:
        b.next(o2, chunk(rng))
    if rng.random() < 0.5:      # and once more, now from wherever it stands
        b.op('reset', o)
        b.next(o, rng.choice([end, chunk(rng)]))
    return c


SCALE_KINDS = ['bbn', 'bln', 'fir', 'shaped', 'blneq', 'tone', 'square', 'samtone']


def gen_scale_case(rng, k=0):
    """Requests far beyond the usual sizes, mixed with tiny ones, on a generator (every stateful carrier in turn,
    bare or wrapped) and on a queue of many trials; the first one asks for 2**20 samples."""
    b = Builder(rng, 'scale')
    c = b.case
    c['arrays'] = random_arrays(rng, 1)
    big = 2 ** 20 if k == 0 else rng.choice([2 ** 16, 2 ** 16 + 1, 2 ** 17 - 3])
    if k % 3 != 2:
        s = leaf_spec_of(rng, SCALE_KINDS[(k - k // 3) % len(SCALE_KINDS)], 1)
        if rng.random() < 0.5:
            s = wrap_spec(rng, s)
        c['specs'] = [set_rep(s, rng.choice(REPS))]
        o = b.new(0)
        b.next(o, rng.choice([1, 3]))
        b.next(o, big)
        o2 = b.copy(o)
        b.next(o, 2)
        b.op('scribble')
        b.op('reset', o)
        b.next(o, rng.choice([1, 5]))
        b.next(o2, rng.choice([2, 2 ** 12]))
    else:
        c['specs'] = [random_spec(rng, 1, finite=True)]
        q = b.qnew(rng.choice(QUEUE_KINDS), rng.choice([0, 1]))
        g = b.new(0)
        b.op('append', q, g, rng.choice([2000, 5000]), rng.choice([0, 1]))
        b.op('appendw', q, 0, 3000, 0)
        b.op('pop', q, 3)
        b.op('pop', q, big)
        q2 = b.clone(q)
        b.op('pop', q, 2)
        b.op('pop', q2, rng.choice([2, 2 ** 12]))
    return c


def gen_queue_case(rng):
    b = Builder(rng, 'queue')
    c = b.case
    c['arrays'] = random_arrays(rng, rng.choice([1, 2]))
    rep = rng.choice(REPS)
    c['specs'] = [random_spec(rng, len(c['arrays']), finite=True, rep=rep) for _ in range(rng.choice([1, 2]))]
    nspec = len(c['specs'])
    # one more array that no factory spec refers to: appended to queues only, later overwritten by the caller
    c['arrays'] += random_arrays(rng, 1)
    c['adtypes'] = random_dtypes(rng, len(c['arrays']))
    qonly = len(c['arrays']) - 1
    kind = rng.choice(QUEUE_KINDS)
    q = b.qnew(kind, queue_param(rng, kind))
    r0 = rng.random()
    if r0 < 0.3:
        # the caller post-processes a buffer in place (buf *= gain): a buffer lying wholly inside one trial of an
        # array token must not be a window onto the queue's stored waveform
        b.op('appendw', q, qonly, rng.choice([2, 3]), rng.choice([0, 2]), *rng.choice(APPEND_EX))
        b.op('pop', q, rng.choice([3, 5]))
        b.op('scribble')
        b.pop(q, rng.choice([3, 9, 30]))
    elif r0 < 0.45:
        # unusual orders: clone / pop before anything was appended, use after the queue ran empty
        q2 = b.clone(q)
        b.pop(q, rng.choice([0, 4]))
        g = b.new(rng.randrange(nspec))
        b.op('append', q2, g, 1, 0, *rng.choice(APPEND_EX))
        b.op('append', q, g, 1, rng.choice([0, 2]))
        b.pop(q2, rng.choice([40, 70]))
        b.clone(b.clone(q2))
        b.op('append', q2, g, 2, 1)
    elif r0 < 0.6:
        # two queues that differ in one parameter (the seed of the blocked-random order), filled alike
        k2 = rng.choice(['brand', 'brand', 'fifo'])
        p = rng.choice([0, 1, 5]) if k2 == 'brand' else 102
        q1, q2 = b.qnew(k2, p), b.qnew(k2, p + 1)
        gs = [b.new(rng.randrange(nspec)) for _ in range(2)]
        for qq in (q1, q2):
            for g in gs:
                b.op('append', qq, g, 2, 0)
            b.op('appendw', qq, qonly, 2, 1)
        b.op('pop', q1, rng.choice([30, 60]))
        b.op('pop', q2, rng.choice([30, 60]))
    for _ in range(rng.randint(4, 12)):
        r = rng.random()
        g, qs = b.gens(), b.queues()
        if r < 0.15 or not g:
            b.new(rng.randrange(nspec))
        elif r < 0.35:
            b.op('append', rng.choice(qs), rng.choice(g), rng.choice([1, 2, 3]), rng.choice([0, 0, 3]),
                 *rng.choice(APPEND_EX))
        elif r < 0.45:
            b.op('appendw', rng.choice(qs), rng.choice([qonly, rng.randrange(len(c['arrays']))]), rng.choice([1, 2]),
                 rng.choice([0, 2]), *rng.choice(APPEND_EX))
            if rng.random() < 0.4:
                b.op('wwrite', qonly)
        elif r < 0.65:
            b.pop(rng.choice(qs), rng.choice([3, 9, 17, 30, 45, 0, 1]))
        elif r < 0.75:
            b.next(rng.choice(g), chunk(rng))   # later use of the original object
        elif r < 0.85:
            if rng.random() < 0.7:
                b.clone(rng.choice(qs))
            else:
                b.copy(rng.choice(qs))
        elif r < 0.9 and len(qs) < 3:
            k2 = rng.choice(QUEUE_KINDS)
            b.qnew(k2, queue_param(rng, k2))
        else:
            b.noise()
    b.sweep()
    if rng.random() < 0.3:
        b.audit_arrays(skip=(qonly,))
    return c


def exhaustive_cache(maxlen):
    """Every op sequence up to maxlen over a 6-letter alphabet on a wrapper/wrapped/factory-form key triple."""
    a = {'dur': 0.012, 'rise': 0.004, 'offset': 0, 'start': 0, 'samples': 6}
    kds = [{'fn': 'cos2envelope', 'form': 'pos', 'a': a},
           {'fn': 'blfilter', 'form': 'pos', 'a': {'fl': 100.0, 'fh': 200.0, 'rolloff': 1, 'pa': 1, 'sa': 40}}]
    keys, idx = close_keys(kds)      # keys: [envelope pos (inner), cos2envelope, blfilter]
    alphabet = ['c0', 'c1', 'c2', 'm', 's', 'r']
    for n in range(1, maxlen + 1):
        for word in itertools.product(alphabet, repeat=n):
            ops, nh, ok = [], 0, True
            for ch in word:
                if ch[0] == 'c':
                    ops.append(['call', int(ch[1])])
                    nh += 1
                elif ch == 's':
                    ops.append(['scribble'])
                elif nh == 0:
                    ok = False
                    break
                elif ch == 'm':
                    ops.append(['mutate', nh - 1, 0, 1])
                else:
                    ops.append(['read', 0])
            if ok and word[-1][0] == 'c':
                yield {'kind': 'cache-exh', 'specs': [], 'arrays': [], 'keys': keys, 'ops': ops}


def malformed_cases():
    keys, _ = close_keys([{'fn': 'sam_eq_power', 'form': 'pos', 'a': {'depth': 1.0}},
                          {'fn': 'sam_envelope', 'form': 'pos',
                           'a': {'offset': 0, 'samples': 6, 'depth': 1.0, 'fm': 50.0, 'delay': 0.0}}])
    base = {'kind': 'malformed', 'arrays': [[0.5, 0.25]], 'keys': keys,
            'specs': [{'t': 'tone', 'f': 100.0, 'level': 1.0, 'phase': 0, 'pol': 1}]}
    for ops in ([['read', 0]], [['mutate', 3, 0, 0]], [['call', 9]], [['call', 0], ['mutate', 0, 0, 0]],
                [['call', 2], ['mutate', 0, 0, 99]], [['call', 2], ['mutate', 0, 4, 0]],
                [['next', 0, 3]], [['new', 0], ['pop', 0, 3]], [['new', 5]], [['qnew', 'fifo', 0], ['next', 0, 3]],
                [['qnew', 'fifo', 0], ['append', 0, 0, 1, 0]], [['new', 0], ['clone', 0]], [['copy', 2]],
                [['qnew', 'fifo', 0], ['appendw', 0, 7, 1, 0]], [['qnew', 'lifo', 0]], [['reset', 0]], [['wwrite', 4]],
                [['new', 0], ['qnew', 'brand', 1], ['appendw', 1, 0, 2, 0], ['reset', 1], ['pop', 1, 5]]):
        yield dict(base, ops=ops)


# --------------------------------------------------------------------------

CREATES_OBJ = ('new', 'qnew', 'copy', 'clone')


def drop_op(case, i):
    """The history without op i and without everything that depended on what it created."""
    ops = case['ops']
    dead = {i}
    changed = True
    while changed:
        changed = False
        oid, hid = 0, 0
        dead_obj, dead_h = set(), set()
        for k, op in enumerate(ops):
            if op[0] in CREATES_OBJ:
                if k in dead:
                    dead_obj.add(oid)
                oid += 1
            if op[0] == 'call':
                if k in dead:
                    dead_h.add(hid)
                hid += 1
        for k, op in enumerate(ops):
            if k in dead:
                continue
            uses_o = []
            if op[0] in ('next', 'reset', 'copy', 'clone', 'pop', 'appendw'):
                uses_o = [op[1]]
            elif op[0] == 'append':
                uses_o = [op[1], op[2]]
            uses_h = [op[1]] if op[0] in ('mutate', 'read') else []
            if any(o in dead_obj for o in uses_o) or any(h in dead_h for h in uses_h):
                dead.add(k)
                changed = True
    omap, hmap = {}, {}
    oid = hid = no = nh = 0
    for k, op in enumerate(ops):
        if op[0] in CREATES_OBJ:
            if k not in dead:
                omap[oid] = no
                no += 1
            oid += 1
        if op[0] == 'call':
            if k not in dead:
                hmap[hid] = nh
                nh += 1
            hid += 1
    out = []
    for k, op in enumerate(ops):
        if k in dead:
            continue
        op = list(op)
        try:
            if op[0] in ('next', 'reset', 'copy', 'clone', 'pop', 'appendw'):
                op[1] = omap[op[1]]
            elif op[0] == 'append':
                op[1], op[2] = omap[op[1]], omap[op[2]]
            elif op[0] in ('mutate', 'read'):
                op[1] = hmap[op[1]]
        except KeyError:
            return None
        out.append(op)
    return dict(case, ops=out)


class C10(Spec):
    PROP = 'C10'
    MODEL = 'cache'
    PROOF_MODULES = ['PsiProofs.C10']
    DESIGN_REF = 'DESIGN.md §6 C10'
    PARALLEL = 0
    TRUST = [
        'modelled, not verified: Python object aliasing — that copy.deepcopy reaches every mutable sub-object of a '
        'factory/queue and that ndarray.copy() shares no memory — has no counterpart in the value-semantics model; '
        'it is covered only by the differential histories (level: partial for that part)',
        'the abstract generator (params, offset, rng, filter) treats RandomState/lfilter/cos as deterministic '
        'functions of their explicit state; init has no global-state argument',
        'pristine references (streams and function values) and the history itself are computed by the real library '
        'in separate forked children of harness.c10_zygote, an interpreter that imported psiaudio and never used it',
    ]
    ASSUMPTIONS = ['noise factories are given an explicit integer seed (seed=None asks NumPy for OS entropy and is '
                   'outside "seeded noise")',
                   'a factory object is not shared between two wrappers; arrays passed as parameters are not '
                   'written by the caller',
                   'not asked for (defects recorded in notes/C10.md, hardening pass): an empty request next(0) to a '
                   'generator with an lfilter state; one history mixing Python and NumPy scalars of the same value '
                   'as arguments of the memoised functions']
    RULE = ('histories of 4-25 ops drawn from: memoised-function calls in the library\'s own argument forms, caller '
            'writes into returned arrays, new/next/reset/deepcopy of every constructible stim factory (nested up to '
            'depth 3), queue append/pop/clone for FIFO/interleaved/blocked/blocked-random, global np.random seed and '
            'draws, scribble over every returned array; every live object is drawn at the end. Non-trivial = the '
            'history contains at least one op the prediction must ignore or undo (mutate, scribble, seed, rand, '
            'reset after next, copy, clone, append followed by use of the original). Hardening pass: every '
            'constructor keyword at a non-default value, positional/keyword spellings of every call, one number '
            'representation per history (float / int / NumPy scalar), float32 and integer parameter arrays, empty '
            'and 1-sample arrays, the plain function forms of the stimuli, calls and generators that differ in one '
            'argument (incl. the calibration object or a callable), grouped and keep_complete_waveforms=False '
            'queues, extend / keyword / metadata / iterator-delay spellings of append, pop_buffer(decrement=False), '
            'reset before/twice/after completion, every leaf kind under every wrapper kind drawn / reset / drawn '
            '(gen-reset), requests of 0 and of 2**16..2**20 samples, queues of thousands of '
            'trials, a generator built over every parameter array at the end (arguments come back unmodified).')
    exhaustive_note = {
        'quick': 'memo histories: every op word of length <= 4 over {call wrapped, call wrapper, call tuple-valued, '
                 'mutate last, scribble, read first} ending in a call',
        'thorough': 'memo histories: every such op word of length <= 6',
    }

    def cases(self, rng, tier):
        n = 3 if tier == 'quick' else 30
        self.PARALLEL = 16      # references are evaluated in forked children of a pristine interpreter: spread them
        for c in malformed_cases():
            yield c
        for c in exhaustive_cache(4 if tier == 'quick' else 6):
            yield c
        for _ in range(150 * n):
            yield gen_cache_case(rng)
        for _ in range(170 * n):
            yield gen_gen_case(rng)
        for _ in range(130 * n):
            yield gen_gen_case(rng, mixed=True)
        for _ in range(140 * n):
            yield gen_queue_case(rng)
        for _ in range(50 * n):
            yield gen_sibling_case(rng)
        for _ in range(50 * n):
            yield gen_hist_case(rng)
        for k in range(4 * n):
            yield gen_scale_case(rng, k)
        for k in range(len(RESET_LEAVES) * len(RESET_WRAPS) * (1 if tier == 'quick' else 6)):
            yield gen_reset_case(rng, k)

    # The Lean model follows the fixed code (copy on return); C10_VARIANT=alias selects the model of the
    # code as originally written, to show that it reproduces the defect position by position.
    @staticmethod
    def preamble(c):
        variant = c.get('variant', os.environ.get('C10_VARIANT', 'copy'))
        pre = [f'variant {variant}', f"specs {len(c.get('specs', []))}", f"arrays {len(c.get('arrays', []))}"]
        for i, kd in enumerate(c.get('keys', [])):
            lens = ','.join(str(x) for x in kd['lens']) or '-'
            pre.append(f"key {i} {lens} {'-' if kd['inner'] is None else kd['inner']}")
        return pre

    # number of words of an op the model knows; further words name the spelling of the call (same meaning)
    ARITY = {'next': 3, 'pop': 3, 'append': 5, 'appendw': 5}

    def model_lines(self, c):
        return self.preamble(c) + [' '.join(str(x) for x in op[:self.ARITY.get(op[0] if op else None, len(op))])
                                   for op in c['ops']]

    def impl_lines(self, c):
        return ['ok'] * len(self.preamble(c)) + run_history(c)

    def oracle(self, c, out):
        if out and out[0].startswith('HARNESS-EXC'):
            # the history or one of its references could not be evaluated at all (the library raised where no
            # request is refused, or did not return): a failing input of the property, never an infrastructure error
            return 'the history could not be evaluated: ' + out[0][len('HARNESS-EXC '):][:300]
        out = out[len(self.preamble(c)):]
        for k, (op, line) in enumerate(zip(c['ops'], out)):
            if ' RAISED ' in line:
                return f"op {k}: {op[0]} raised {line.split(' RAISED ')[1]}"
            if line.startswith('op raised '):
                return (f'op {k}: {op[0]} on object {op[1]} ended in {line[10:]} (a programming error inside the library, '
                        f'not a refused request)')
            if op[0] == 'call' and ' dirty' in line:
                kd = c['keys'][op[1]]
                return (f"op {k}: {kd['fn']}({kd['form']}) returned a value that differs from a fresh evaluation "
                        f"with the same arguments at [{line.split('dirty ')[1][:60]}]")
            if op[0] == 'call' and line.startswith('EXC'):
                return f'op {k}: call raised {line}'
            if op[0] in ('next', 'pop') and ' DIFF@' in line:
                return (f'op {k}: {op[0]} on object {op[1]} returned a chunk that differs (first at sample '
                        f"{line.split('DIFF@')[1]}) from the chunk of a pristine object with lineage {line.split(' DIFF')[0]}")
        return None

    def nontrivial(self, c, out):
        kinds = [op[0] for op in c['ops']]
        if any(k in kinds for k in ('mutate', 'scribble', 'seed', 'rand', 'copy', 'clone', 'append', 'appendw')):
            return True
        return 'reset' in kinds and 'next' in kinds[:kinds.index('reset')]

    def neighbours(self, c, rng):
        for i in range(len(c['ops'])):
            d = drop_op(c, i)
            if d is not None and d['ops']:
                yield d

    def shrink_candidates(self, c):
        for i in reversed(range(len(c['ops']))):
            d = drop_op(c, i)
            if d is not None and d['ops']:
                yield d
        for i, op in enumerate(c['ops']):
            if op[0] in ('next', 'pop') and op[2] > 2:
                ops = [list(o) for o in c['ops']]
                ops[i][2] = op[2] // 2
                yield dict(c, ops=ops)

    def describe(self, c):
        return json.dumps({'specs': c.get('specs'), 'keys': [[k['fn'], k['form']] for k in c.get('keys', [])],
                           'ops': c['ops']}, sort_keys=True)[:600]


SPEC = C10()
