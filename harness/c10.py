"""C10 — generation is deterministic and isolated from other objects and global state.

A case is a *history*: an interleaving of
  * calls of the memoised stimulus functions (same positional/keyword form the library
    itself uses), in-place writes by the caller into arrays returned earlier;
  * construction / next / reset / deepcopy of stimulus factories, queue append / pop / clone;
  * np.random.seed + draws on the GLOBAL generator; `scribble` = overwrite every array any
    library call has returned so far.
The prediction (Lean model `cache`, and independently the oracle below) ignores the global
RNG and the caller's writes: every `call` must return f(args), every `next`/`pop` must return
what a freshly built object with the same lineage returns in a pristine world.

Outputs never contain floats: a chunk is named by its lineage (`g3[5,7]+4` = 3rd spec, chunks 5 and
7 drawn since construction/reset, this chunk 4 samples) and compared bit-exactly, inside
`impl_lines`, with the chunk a pristine object of that lineage produces (` DIFF@i` is appended on
a difference).
"""
import copy
import itertools
import json
import os
import pickle
import sys
import tempfile
import traceback

import numpy as np

from .framework import Spec
from .common import VERIF as VERIF_DIR

FS = 1000.0
POISON = -12345.5
CACHED = ['envelope', 'cos2envelope', 'sam_eq_power', 'sam_eq_phase', '_sam_envelope', 'sam_envelope',
          '_calculate_bandlimited_noise_filter', '_calculate_bandlimited_noise_iir', 'load_wav']


# --------------------------------------------------------------------------
# environment: wav fixtures, cache clearing, process isolation
# --------------------------------------------------------------------------

def wav_dir():
    """Three tiny deterministic wav files (int16 @fs, int16 @2fs -> resampled, float32 @fs)."""
    from scipy.io import wavfile
    d = os.path.join(tempfile.gettempdir(), 'psiverif_c10_wav_v1')
    os.makedirs(d, exist_ok=True)
    k = np.arange(48)
    x16 = ((np.sin(k * 0.37) * 0.6 + ((k * 7) % 11 - 5) / 20.0) * 20000).astype(np.int16)
    want = {'a16.wav': (1000, x16[:40]), 'b16.wav': (2000, x16),
            'c32.wav': (1000, (x16[:36] / 32768.0).astype(np.float32))}
    for name, (rate, data) in want.items():
        p = os.path.join(d, name)
        if not os.path.exists(p):
            tmp = p + f'.{os.getpid()}.tmp'
            wavfile.write(tmp, rate, data)
            os.replace(tmp, p)
    return d


def _stim():
    import logging
    from psiaudio import stim
    logging.getLogger('psiaudio').setLevel(logging.ERROR)
    return stim


def clear_caches():
    """Empty every memo of psiaudio.stim. False when some memo cannot be found/emptied."""
    stim = _stim()
    ok = True
    for name in dir(stim):
        f = getattr(stim, name)
        if not (callable(f) and hasattr(f, '__wrapped__')):
            continue
        if hasattr(f, 'cache_clear'):
            f.cache_clear()
            continue
        cleared = False
        for cell in (getattr(f, '__closure__', None) or ()):
            try:
                v = cell.cell_contents
            except ValueError:
                continue
            if isinstance(v, dict):
                v.clear()
                cleared = True
        ok = ok and cleared
    return ok


def in_child(fn, *args):
    """Run fn(*args) in a forked child (pristine copy of this process), return its result."""
    r, w = os.pipe()
    pid = os.fork()
    if pid == 0:
        code = 0
        try:
            os.close(r)
            try:
                data = pickle.dumps(('ok', fn(*args)))
            except BaseException as e:  # noqa
                data = pickle.dumps(('err', f'{type(e).__name__}: {e}\n{traceback.format_exc()[-600:]}'))
            with os.fdopen(w, 'wb') as f:
                f.write(data)
        except BaseException:  # noqa
            code = 1
        finally:
            os._exit(code)
    os.close(w)
    with os.fdopen(r, 'rb') as f:
        data = f.read()
    os.waitpid(pid, 0)
    kind, val = pickle.loads(data)
    if kind == 'err':
        raise RuntimeError('child failed: ' + val)
    return val


def pristine(fn, *args):
    """fn(*args) in a world whose memo tables are empty: by clearing them, or, if the memo
    implementation is not recognised, in a forked child of a process that never used them."""
    if clear_caches():
        return fn(*args)
    return in_child(fn, *args)


# --------------------------------------------------------------------------
# worlds: the shared objects a history can pass to the library
# --------------------------------------------------------------------------

class World:
    """Parameter objects of one run of a history (arrays, calibrations): created once per
    world, the *same* object is passed every time a spec mentions it."""

    def __init__(self, case):
        from psiaudio import calibration

        class StubCal(calibration.FlatCalibration):
            def get_iir(self, fs, fl, fh, duration):
                return np.array([0.5, 0.25, -0.125, 0.0625])

        self.arrays = [np.array(a, dtype=np.double) for a in case.get('arrays', [])]
        self.cal_unity = calibration.FlatCalibration.unity()
        self.cal_stub = StubCal(0)
        self.wav = wav_dir()


def build(spec, w):
    """Construct the factory a spec describes (recursively)."""
    stim = _stim()
    t = spec['t']
    sub = build(spec['in'], w) if 'in' in spec else None
    if t == 'tone':
        return stim.ToneFactory(FS, spec['f'], spec['level'], spec['phase'], spec['pol'])
    if t == 'samtone':
        return stim.SAMToneFactory(FS, spec['fc'], spec['fm'], spec['level'])
    if t == 'silence':
        return stim.SilenceFactory(spec['fill'])
    if t == 'square':
        return stim.SquareWaveFactory(FS, spec['level'], spec['f'], spec['duty'])
    if t == 'bbn':
        return stim.BroadbandNoiseFactory(FS, spec['level'], seed=spec['seed'], polarity=spec['pol'])
    if t == 'bln':
        return stim.BandlimitedNoiseFactory(FS, spec['seed'], spec['level'], spec['fl'], spec['fh'],
                                            spec['rolloff'], spec['pa'], spec['sa'])
    if t == 'blneq':
        return stim.BandlimitedNoiseFactory(FS, spec['seed'], spec['level'], spec['fl'], spec['fh'],
                                            spec['rolloff'], spec['pa'], spec['sa'], equalize=True,
                                            calibration=w.cal_stub)
    if t == 'fir':
        return stim.BandlimitedFIRNoiseFactory(FS, spec['fl'], spec['fh'], spec['level'], ntaps=spec['ntaps'],
                                               seed=spec['seed'], calibration=w.cal_unity)
    if t == 'shaped':
        gains = {0: -20.0, spec['f1']: 0.0, spec['f2']: 0.0, FS / 2: -20.0}
        return stim.ShapedNoiseFactory(FS, spec['level'], gains, ntaps=spec['ntaps'], seed=spec['seed'])
    if t == 'fixed':
        return stim.FixedWaveform(FS, w.arrays[spec['w']])
    if t == 'chirp':
        return stim.ChirpFactory(FS, spec['f0'], spec['f1'], spec['dur'], spec['level'], None, window=spec['window'])
    if t == 'click':
        return stim.ClickFactory(FS, spec['dur'], spec['level'], spec['pol'], w.cal_unity)
    if t == 'blclick':
        return stim.BandlimitedClickFactory(FS, spec['flb'], spec['fub'], spec['window'], spec['level'])
    if t == 'wav':
        return stim.WavFileFactory(FS, os.path.join(w.wav, spec['file']), normalization=spec['norm'])
    if t == 'gate':
        return stim.GateFactory(FS, spec['start'], spec['dur'], sub)
    if t == 'env':
        return stim.EnvelopeFactory(spec['window'], FS, spec['dur'], spec['rise'], sub, spec['start'])
    if t == 'cos2':
        return stim.Cos2EnvelopeFactory(FS, spec['dur'], spec['rise'], sub, spec['start'])
    if t == 'sam':
        return stim.SAMEnvelopeFactory(FS, spec['depth'], spec['fm'], spec['delay'], spec['dir'], sub)
    if t == 'sqenv':
        return stim.SquareWaveEnvelopeFactory(FS, spec['depth'], spec['fm'], spec['duty'], None, sub, spec['alpha'])
    if t == 'notch':
        return stim.NotchFilterFactory(FS, spec['f'], spec['q'], sub)
    if t == 'repeat':
        return stim.RepeatFactory(FS, spec['n'], spec['skip'], spec['rate'], spec['delay'], sub)
    raise ValueError(f'unknown spec type {t}')


def invoke(kd, w):
    """Call a memoised function exactly in the argument form named by the key descriptor."""
    stim = _stim()
    fn, form, a = kd['fn'], kd['form'], kd['a']
    if fn == 'envelope':
        if form == 'pos':      # the form cos2envelope uses
            return stim.envelope(a['window'], FS, a['dur'], a['rise'], a['offset'], a['start'], a['samples'])
        if form == 'kw':       # the form EnvelopeFactory.next uses
            return stim.envelope(window=a['window'], fs=FS, duration=a['dur'], rise_time=a['rise'],
                                 offset=a['offset'], start_time=a['start'], samples=a['samples'], transform=None)
        if form == 'ramped':   # the form ramped_tone uses
            return stim.envelope(window=a['window'], fs=FS, rise_time=a['rise'], duration=a['dur'])
        # two spellings that give the SAME value to DIFFERENT optional parameters
        if form == 'pos_off':
            return stim.envelope(a['window'], FS, a['dur'], a['rise'], a['x'])
        if form == 'kw_start':
            return stim.envelope(a['window'], FS, a['dur'], a['rise'], start_time=a['x'])
    if fn == 'cos2envelope':
        if form == 'pos':
            return stim.cos2envelope(FS, a['dur'], a['rise'], a['offset'], a['start'], a['samples'])
        if form == 'short':
            return stim.cos2envelope(FS, a['dur'], a['rise'])
        if form == 'pos_off':
            return stim.cos2envelope(FS, a['dur'], a['rise'], a['x'])
        if form == 'kw_samples':
            return stim.cos2envelope(FS, a['dur'], a['rise'], samples=a['x'])
    if fn == '_sam_envelope':  # the form SAMEnvelopeFactory.env / sam_envelope use
        return stim._sam_envelope(a['offset'], a['samples'], FS, a['depth'], a['fm'], a['delay'],
                                  stim.sam_eq_phase(a['delay'], a['depth'], 1), stim.sam_eq_power(a['depth']))
    if fn == 'sam_envelope':
        return stim.sam_envelope(a['offset'], a['samples'], FS, a['depth'], a['fm'], a['delay'], True)
    if fn == 'sam_eq_power':
        return stim.sam_eq_power(a['depth'])
    if fn == 'sam_eq_phase':
        return stim.sam_eq_phase(a['delay'], a['depth'], a['dir'])
    if fn == 'blfilter':       # the form BandlimitedNoiseFactory.__init__ uses
        fl, fh, ro = a['fl'], a['fh'], a['rolloff']
        return stim._calculate_bandlimited_noise_filter(FS, fl, fh, fl * (2 ** -ro), fh * (2 ** ro), a['pa'], a['sa'])
    if fn == 'bliir':
        return stim._calculate_bandlimited_noise_iir(FS, w.cal_stub, a['fl'], a['fh'])
    if fn == 'load_wav':       # the form WavFileFactory.waveform uses
        return stim.load_wav(FS, os.path.join(w.wav, a['file']), None, None, normalization=a['norm'])
    raise ValueError(f'unknown key {fn}/{form}')


def inner_key(kd):
    """Key descriptor of the memoised call whose result object a wrapper returns, else None."""
    fn, form, a = kd['fn'], kd['form'], kd['a']
    if fn == 'cos2envelope':
        if form == 'pos':
            return {'fn': 'envelope', 'form': 'pos', 'a': dict(a, window='cosine-squared')}
        return {'fn': 'envelope', 'form': 'pos',
                'a': {'window': 'cosine-squared', 'dur': a['dur'], 'rise': a['rise'], 'offset': 0, 'start': 0,
                      'samples': 'auto'}}
    if fn == 'sam_envelope':
        return {'fn': '_sam_envelope', 'form': 'eq', 'a': dict(a)}
    return None


def canon(o):
    return json.dumps(o, sort_keys=True)


def comps(res):
    """Mutable components of a result: list of ndarrays ([] for scalars)."""
    if isinstance(res, np.ndarray):
        return [res]
    if isinstance(res, tuple):
        return [c for c in res if isinstance(c, np.ndarray)]
    return []


def freeze(res):
    """Immutable picture of a result for later comparison."""
    if isinstance(res, np.ndarray):
        return ('arr', [np.array(res, copy=True)])
    if isinstance(res, tuple):
        return ('tup', [np.array(c, copy=True) for c in res if isinstance(c, np.ndarray)])
    return ('val', repr(res))


def dirty_positions(res, ref):
    """'clean' or 'dirty c.i,...' — where the result differs from the pristine value."""
    kind, rv = ref
    if kind == 'val':
        return 'clean' if repr(res) == rv else 'dirty value'
    cs = comps(res)
    if len(cs) != len(rv):
        return 'dirty arity'
    bad = []
    for c, (a, b) in enumerate(zip(cs, rv)):
        if a.shape != b.shape or a.dtype != b.dtype:
            return f'dirty shape{c}'
        ne = ~((a == b) | ((a != a) & (b != b)))
        bad.extend(f'{c}.{int(i)}' for i in np.flatnonzero(ne))
    return 'clean' if not bad else 'dirty ' + ','.join(bad)


def pack(x):
    """Bit-exact picture of a returned chunk (or of the exception that replaced it)."""
    if isinstance(x, BaseException):
        return ('exc', type(x).__name__)
    x = np.asarray(x)
    return ('ok', str(x.dtype), tuple(x.shape), x.tobytes())


def first_diff(a, b):
    """Index of the first differing sample of two packed chunks (0 when not comparable)."""
    if a[0] != b[0] or a[0] == 'exc' or a[1] != b[1] or a[2] != b[2]:
        return 0
    x = np.frombuffer(a[3], dtype=a[1])
    y = np.frombuffer(b[3], dtype=b[1])
    if not len(x):
        return 0
    xs = x.view(np.uint8).reshape(len(x), -1)
    ys = y.view(np.uint8).reshape(len(y), -1)
    idx = np.flatnonzero((xs != ys).any(axis=1))
    return int(idx[0]) if len(idx) else 0


# --------------------------------------------------------------------------
# lineage: what the property says an object's stream may depend on
# --------------------------------------------------------------------------

def g_name(v):
    return f"g{v[1]}[{','.join(str(c) for c in v[2])}]"


def q_name(v):
    evs = []
    for e in v[3]:
        if e[0] == 'a':
            evs.append(f'a({g_name(e[1])})x{e[2]}d{e[3]}')
        elif e[0] == 'w':
            evs.append(f"w{e[1]}{'!' if e[4] else ''}x{e[2]}d{e[3]}")
        else:
            evs.append(f'p{e[1]}')
    return f"q{v[1]}:{v[2]}{{{';'.join(evs)}}}"


QUEUE_KINDS = ('fifo', 'inter', 'blocked', 'brand')


def make_queue(kind, param):
    from psiaudio import queue as Q
    if kind == 'fifo':
        return Q.FIFOSignalQueue(fs=FS)
    if kind == 'inter':
        return Q.InterleavedFIFOSignalQueue(fs=FS)
    if kind == 'blocked':
        return Q.BlockedFIFOSignalQueue(fs=FS)
    if kind == 'brand':
        return Q.BlockedRandomSignalQueue(seed=param, fs=FS)
    raise ValueError(kind)


def eval_gen(case, v):
    """Pristine object of lineage v (fresh world); returns (object, last chunk or exception)."""
    w = World(case)
    obj = build(case['specs'][v[1]], w)
    out = None
    for n in v[2]:
        try:
            out = obj.next(n)
        except Exception as e:  # noqa
            out = e
    return obj, out, w


def eval_queue(case, v):
    w = World(case)
    q = make_queue(v[1], v[2])
    out = None
    for e in v[3]:
        try:
            if e[0] == 'a':
                src, _, _ = eval_gen(case, e[1])
                q.append(src, e[2], delays=e[3] / FS)
            elif e[0] == 'w':     # e[4]: the caller had overwritten its array before appending it
                q.append(np.full_like(w.arrays[e[1]], POISON) if e[4] else w.arrays[e[1]], e[2], delays=e[3] / FS)
            else:
                out = q.pop_buffer(e[1])
        except Exception as ex:  # noqa
            out = ex
    return out


def _ref_eval(kind, case, v):
    return pack(eval_gen(case, v)[1]) if kind == 'g' else pack(eval_queue(case, v))


_ZYG = None     # (pid of the process that started it, Popen)


def clean_ref(kind, case, v):
    """Reference stream of lineage v, computed by harness.c10_zygote: a fresh interpreter in which no
    generator or queue was ever built (so no module- or class-level state of the library can leak into it)."""
    global _ZYG
    import atexit
    import struct
    import subprocess
    if _ZYG is None or _ZYG[0] != os.getpid() or _ZYG[1].poll() is not None:
        env = dict(os.environ)
        env['PYTHONPATH'] = VERIF_DIR + os.pathsep + env.get('PYTHONPATH', '')
        z = subprocess.Popen([sys.executable, '-m', 'harness.c10_zygote'], stdin=subprocess.PIPE,
                             stdout=subprocess.PIPE, cwd=VERIF_DIR, env=env)
        _ZYG = (os.getpid(), z)
        atexit.register(lambda z=z: (z.stdin.close(), z.wait(timeout=5)) if z.poll() is None else None)
    z = _ZYG[1]
    data = pickle.dumps((kind, case, v))
    z.stdin.write(struct.pack('<I', len(data)) + data)
    z.stdin.flush()
    (n,) = struct.unpack('<I', z.stdout.read(4))
    st, val = pickle.loads(z.stdout.read(n))
    if st != 'ok':
        raise RuntimeError('reference evaluation failed: ' + val)
    return val


def ref_key(case, kd):
    return pristine(lambda: freeze(invoke(kd, World(case))))


# --------------------------------------------------------------------------
# running a history against the real code
# --------------------------------------------------------------------------

def run_history(case):
    """One line per op. The lineage bookkeeping here is the oracle's statement of what each
    stream may depend on; the Lean model computes the same names independently."""
    ops = case['ops']
    keys = case.get('keys', [])
    # ---- pass 1: lineages, and pristine references for everything that will be observed
    lin = []            # per object: ('g', spec, chunks) | ('q', kind, param, events)
    want = []           # per op: None | 'bad' | lineage value at the observation
    nspec, narr = len(case.get('specs', [])), len(case.get('arrays', []))
    written = set()     # parameter arrays the caller has overwritten so far

    def obj(i, kind=None):
        if not (isinstance(i, int) and 0 <= i < len(lin)) or (kind and lin[i][0] != kind):
            raise IndexError
        return lin[i]

    def nat(*xs):
        if not all(isinstance(x, int) and x >= 0 for x in xs):
            raise IndexError

    for op in ops:
        o = op[0]
        wv = None
        try:
            if o == 'new':
                nat(op[1])
                if op[1] >= nspec:
                    raise IndexError
                lin.append(('g', op[1], ()))
            elif o == 'qnew':
                nat(op[2])
                if op[1] not in QUEUE_KINDS:
                    raise IndexError
                lin.append(('q', op[1], op[2], ()))
            elif o == 'next':
                v = obj(op[1], 'g')
                nat(op[2])
                lin[op[1]] = ('g', v[1], v[2] + (op[2],))
                wv = lin[op[1]]
            elif o == 'reset':
                v = obj(op[1], 'g')
                lin[op[1]] = ('g', v[1], ())
            elif o == 'copy':
                lin.append(obj(op[1]))
            elif o == 'clone':
                lin.append(obj(op[1], 'q'))
            elif o == 'append':
                q, g = obj(op[1], 'q'), obj(op[2], 'g')
                nat(op[3], op[4])
                lin[op[1]] = q[:3] + (q[3] + (('a', g, op[3], op[4]),),)
            elif o == 'appendw':
                q = obj(op[1], 'q')
                nat(op[2], op[3], op[4])
                if op[2] >= narr:
                    raise IndexError
                lin[op[1]] = q[:3] + (q[3] + (('w', op[2], op[3], op[4], op[2] in written),),)
            elif o == 'pop':
                q = obj(op[1], 'q')
                nat(op[2])
                lin[op[1]] = q[:3] + (q[3] + (('p', op[2]),),)
                wv = lin[op[1]]
            elif o == 'wwrite':
                nat(op[1])
                if op[1] >= narr:
                    raise IndexError
                written.add(op[1])
        except (IndexError, TypeError):
            wv = 'bad'
        want.append(wv)
    refs = {}
    for wv in want:
        if wv is not None and wv != 'bad' and wv not in refs:
            if wv[0] == 'g':
                refs[wv] = clean_ref('g', case, wv)
            else:
                refs[wv] = clean_ref('q', case, wv)
    kref = {}
    for op in ops:
        if op[0] == 'call' and 0 <= op[1] < len(keys) and op[1] not in kref:
            kref[op[1]] = ref_key(case, keys[op[1]])

    # ---- pass 2: the history itself, in one world, memo tables empty at the start
    def history():
        w = World(case)
        objs, handles, returned, out = [], [], [], []
        for k, op in enumerate(ops):
            o = op[0]
            if want[k] == 'bad':
                out.append('bad-op')
                continue
            if o == 'key':
                out.append('ok')
            elif o == 'call':
                if not (0 <= op[1] < len(keys)):
                    out.append('bad-op')
                    continue
                try:
                    res = invoke(keys[op[1]], w)
                except Exception as e:  # noqa
                    out.append(f'EXC {type(e).__name__}')
                    handles.append((op[1], None, ('val', 'None')))
                    continue
                kind, rv = kref[op[1]]
                handles.append((op[1], res, (kind, [a.copy() for a in rv] if kind != 'val' else rv)))
                returned.extend(comps(res))
                out.append(f'h{len(handles) - 1} ' + dirty_positions(res, kref[op[1]]))
            elif o == 'read':
                if not (0 <= op[1] < len(handles)):
                    out.append('bad-handle')
                    continue
                # what the caller expects to find: the value it was handed plus its own writes
                kid, res, expect = handles[op[1]]
                out.append(dirty_positions(res, expect))
            elif o == 'mutate':
                if not (0 <= op[1] < len(handles)):
                    out.append('bad-handle')
                    continue
                cs = comps(handles[op[1]][1])
                if not (0 <= op[2] < len(cs)) or not (0 <= op[3] < cs[op[2]].size):
                    out.append('bad-index')
                    continue
                try:
                    cs[op[2]].flat[op[3]] = POISON
                    handles[op[1]][2][1][op[2]].flat[op[3]] = POISON
                except ValueError:      # a read-only result: nothing was written
                    pass
                out.append('ok')
            elif o == 'scribble':
                for a in returned:
                    try:
                        a[...] = POISON
                    except ValueError:
                        pass
                for _, res, expect in handles:
                    for a, e in zip(comps(res), expect[1] if expect[0] != 'val' else []):
                        if a.flags.writeable:
                            e[...] = POISON
                out.append('ok')
            elif o == 'seed':
                np.random.seed(op[1])
                out.append('ok')
            elif o == 'rand':
                np.random.rand(op[1])
                np.random.randint(0, 10, size=op[1])
                out.append('ok')
            elif o == 'wwrite':
                w.arrays[op[1]][...] = POISON
                out.append('ok')
            elif o == 'new':
                objs.append(build(case['specs'][op[1]], w))
                out.append(f'o{len(objs) - 1}')
            elif o == 'qnew':
                objs.append(make_queue(op[1], op[2]))
                out.append(f'o{len(objs) - 1}')
            elif o == 'reset':
                objs[op[1]].reset()
                out.append('ok')
            elif o == 'copy':
                objs.append(copy.deepcopy(objs[op[1]]))
                out.append(f'o{len(objs) - 1}')
            elif o == 'clone':
                objs.append(objs[op[1]].clone())
                out.append(f'o{len(objs) - 1}')
            elif o == 'append':
                objs[op[1]].append(objs[op[2]], op[3], delays=op[4] / FS)
                out.append('ok')
            elif o == 'appendw':
                objs[op[1]].append(w.arrays[op[2]], op[3], delays=op[4] / FS)
                out.append('ok')
            elif o in ('next', 'pop'):
                try:
                    got = objs[op[1]].next(op[2]) if o == 'next' else objs[op[1]].pop_buffer(op[2])
                except Exception as e:  # noqa
                    got = e
                if isinstance(got, np.ndarray):
                    returned.append(got)
                p = pack(got)
                v = want[k]
                if v[0] == 'g':     # lineage before this chunk + this chunk
                    name = g_name(('g', v[1], v[2][:-1])) + f'+{v[2][-1]}'
                else:
                    name = q_name(v[:3] + (v[3][:-1],)) + f'+{v[3][-1][1]}'
                if p == refs[v]:
                    out.append(name)
                else:
                    out.append(f'{name} DIFF@{first_diff(p, refs[v])}')
            else:
                out.append('bad-op')
        return out

    st = np.random.get_state()
    try:
        return pristine(history)
    finally:
        np.random.set_state(st)


# --------------------------------------------------------------------------
# case generation
# --------------------------------------------------------------------------

def leaf_spec(rng, narrays, finite=False):
    kinds = ['fixed', 'chirp', 'click', 'blclick', 'wav'] if finite else \
        ['tone', 'samtone', 'silence', 'square', 'bbn', 'bln', 'blneq', 'fir', 'shaped', 'fixed', 'chirp', 'click',
         'blclick', 'wav', 'bbn', 'tone']
    t = rng.choice(kinds)
    if t == 'fixed' and not narrays:
        t = 'chirp'
    if t == 'tone':
        return {'t': t, 'f': rng.choice([50.0, 100.0, 125.0]), 'level': rng.choice([1.0, 0.5]),
                'phase': rng.choice([0, 0.3]), 'pol': rng.choice([1, -1])}
    if t == 'samtone':
        return {'t': t, 'fc': rng.choice([200.0, 250.0]), 'fm': rng.choice([20.0, 40.0]), 'level': 1.0}
    if t == 'silence':
        return {'t': t, 'fill': rng.choice([0, 1])}
    if t == 'square':
        return {'t': t, 'level': 1.0, 'f': rng.choice([100.0, 125.0]), 'duty': rng.choice([0.5, 0.25])}
    if t == 'bbn':
        return {'t': t, 'level': rng.choice([1.0, 2.0]), 'seed': rng.choice([0, 1, 7]), 'pol': rng.choice([1, -1])}
    if t in ('bln', 'blneq'):
        return {'t': t, 'seed': rng.choice([1, 3]), 'level': 1.0, 'fl': rng.choice([100.0, 120.0]), 'fh': 200.0,
                'rolloff': 1, 'pa': 1, 'sa': rng.choice([40, 60])}
    if t == 'fir':
        return {'t': t, 'fl': 100.0, 'fh': rng.choice([200.0, 250.0]), 'level': 1.0, 'ntaps': rng.choice([11, 21]),
                'seed': rng.choice([2, 4])}
    if t == 'shaped':
        return {'t': t, 'level': 1.0, 'f1': 100.0, 'f2': rng.choice([300.0, 350.0]), 'ntaps': rng.choice([11, 21]),
                'seed': rng.choice([5, 6])}
    if t == 'fixed':
        return {'t': t, 'w': rng.randrange(narrays)}
    if t == 'chirp':
        return {'t': t, 'f0': 50.0, 'f1': rng.choice([200.0, 300.0]), 'dur': rng.choice([0.02, 0.03]), 'level': 1.0,
                'window': rng.choice(['boxcar', 'hann'])}
    if t == 'click':
        return {'t': t, 'dur': rng.choice([0.005, 0.012]), 'level': 0.0, 'pol': rng.choice([1, -1])}
    if t == 'blclick':
        return {'t': t, 'flb': 50.0, 'fub': rng.choice([300.0, 400.0]), 'window': rng.choice([0.02, 0.03]),
                'level': 1.0}
    return {'t': 'wav', 'file': rng.choice(['a16.wav', 'b16.wav', 'c32.wav']), 'norm': rng.choice(['pe', None, 'rms'])}


def wrap_spec(rng, inner):
    t = rng.choice(['gate', 'env', 'cos2', 'sam', 'sqenv', 'notch', 'gate', 'cos2'])
    if t == 'gate':
        return {'t': t, 'start': rng.choice([0.0, 0.003, 0.005]), 'dur': rng.choice([0.008, 0.01, 0.02]), 'in': inner}
    if t == 'env':
        return {'t': t, 'window': rng.choice(['cosine-squared', 'hann']), 'dur': rng.choice([0.012, 0.02]),
                'rise': rng.choice([0.004, 0.005, None]), 'start': rng.choice([0, 0.002]), 'in': inner}
    if t == 'cos2':
        return {'t': t, 'dur': rng.choice([0.012, 0.02]), 'rise': rng.choice([0.004, 0.005]),
                'start': rng.choice([0, 0.002]), 'in': inner}
    if t == 'sam':
        return {'t': t, 'depth': rng.choice([1.0, 0.5]), 'fm': rng.choice([50.0, 40.0]),
                'delay': rng.choice([0.0, 0.004]), 'dir': rng.choice([1, 1, -1]), 'in': inner}
    if t == 'sqenv':
        return {'t': t, 'depth': 1.0, 'fm': rng.choice([50.0, 40.0]), 'duty': 0.5, 'alpha': rng.choice([0, 0.2]),
                'in': inner}
    return {'t': 'notch', 'f': rng.choice([100.0, 150.0]), 'q': 1.33, 'in': inner}


def is_finite(spec):
    t = spec['t']
    if t in ('fixed', 'chirp', 'click', 'blclick', 'wav', 'gate', 'env', 'cos2', 'repeat'):
        return True
    if t in ('sam', 'sqenv', 'notch'):
        return is_finite(spec['in'])
    return False


def random_spec(rng, narrays, finite=False):
    s = leaf_spec(rng, narrays)
    depth = rng.choice([0, 1, 1, 2])
    for _ in range(depth):
        s = wrap_spec(rng, s)
    if finite and not is_finite(s):
        s = {'t': rng.choice(['gate', 'cos2']), 'start': 0.002, 'dur': rng.choice([0.01, 0.012]), 'rise': 0.004,
             'in': s}
    if rng.random() < 0.08:
        # repeat needs a short finite input: an enveloped carrier of 12 samples in a 25-sample period
        s = {'t': 'repeat', 'n': 2, 'skip': rng.choice([0, 1]), 'rate': 40.0, 'delay': rng.choice([0.0, 0.002]),
             'in': {'t': 'cos2', 'dur': 0.012, 'rise': 0.004, 'start': 0, 'in': leaf_spec(rng, narrays)}}
    return s


def random_arrays(rng, k):
    out = []
    for _ in range(k):
        n = rng.choice([12, 20, 30])
        out.append([round(rng.uniform(-1, 1), 3) or 0.5 for _ in range(n)])
    return out


def keys_for_spec(spec, chunks):
    """Key descriptors of the memoised calls a factory of this spec makes when drawn in `chunks`."""
    out = []
    t = spec['t']
    if t in ('env', 'cos2'):
        off = 0
        for n in chunks:
            out.append({'fn': 'envelope', 'form': 'kw',
                        'a': {'window': spec.get('window', 'cosine-squared'), 'dur': spec['dur'], 'rise': spec['rise'],
                              'offset': off, 'start': spec['start'], 'samples': n}})
            off += n
    if t == 'sam' and spec['dir'] == 1:
        off = 0
        for n in chunks:
            out.append({'fn': '_sam_envelope', 'form': 'eq',
                        'a': {'offset': off, 'samples': n, 'depth': spec['depth'], 'fm': spec['fm'],
                              'delay': spec['delay']}})
            off += n
    if t in ('bln', 'blneq'):
        out.append({'fn': 'blfilter', 'form': 'pos',
                    'a': {k: spec[k] for k in ('fl', 'fh', 'rolloff', 'pa', 'sa')}})
    if t == 'blneq':
        out.append({'fn': 'bliir', 'form': 'pos', 'a': {'fl': spec['fl'], 'fh': spec['fh']}})
    if t == 'wav':
        out.append({'fn': 'load_wav', 'form': 'factory', 'a': {'file': spec['file'], 'norm': spec['norm']}})
    if 'in' in spec:
        out.extend(keys_for_spec(spec['in'], chunks))
    return out


def random_key(rng):
    fn = rng.choice(['envelope', 'envelope', 'cos2envelope', 'cos2envelope', 'sam_envelope', '_sam_envelope',
                     'sam_eq_power', 'sam_eq_phase', 'blfilter', 'bliir', 'load_wav'])
    env_a = lambda: {'dur': rng.choice([0.012, 0.02]), 'rise': rng.choice([0.004, 0.005]),  # noqa
                     'offset': rng.choice([0, 3, 7]), 'start': rng.choice([0, 0.002]),
                     'samples': rng.choice([5, 9, 20])}
    if fn == 'envelope':
        form = rng.choice(['pos', 'kw', 'ramped'])
        a = env_a()
        a['window'] = rng.choice(['cosine-squared', 'hann'])
        if form == 'ramped':
            a = {'window': a['window'], 'rise': a['rise'], 'dur': a['dur']}
        return {'fn': fn, 'form': form, 'a': a}
    if fn == 'cos2envelope':
        form = rng.choice(['pos', 'short'])
        a = env_a()
        if form == 'short':
            a = {'dur': a['dur'], 'rise': a['rise']}
        return {'fn': fn, 'form': form, 'a': a}
    if fn in ('sam_envelope', '_sam_envelope'):
        return {'fn': fn, 'form': 'eq' if fn == '_sam_envelope' else 'pos',
                'a': {'offset': rng.choice([0, 4]), 'samples': rng.choice([6, 10]), 'depth': rng.choice([1.0, 0.5]),
                      'fm': 50.0, 'delay': rng.choice([0.0, 0.004])}}
    if fn == 'sam_eq_power':
        return {'fn': fn, 'form': 'pos', 'a': {'depth': rng.choice([1.0, 0.5])}}
    if fn == 'sam_eq_phase':
        return {'fn': fn, 'form': 'pos', 'a': {'delay': 0.0, 'depth': rng.choice([1.0, 0.5, 0]), 'dir': rng.choice([1, -1])}}
    if fn == 'blfilter':
        return {'fn': fn, 'form': 'pos', 'a': {'fl': rng.choice([100.0, 120.0]), 'fh': 200.0, 'rolloff': 1, 'pa': 1,
                                                'sa': rng.choice([40, 60])}}
    if fn == 'bliir':
        return {'fn': fn, 'form': 'pos', 'a': {'fl': rng.choice([100.0, 120.0]), 'fh': 200.0}}
    return {'fn': 'load_wav', 'form': 'factory', 'a': {'file': rng.choice(['a16.wav', 'b16.wav', 'c32.wav']),
                                                       'norm': rng.choice(['pe', None, 'rms'])}}


_LENS = {}


def key_lens(kd):
    """Component lengths of a memoised result (needed by the model to build its arrays)."""
    c = canon(kd)
    if c not in _LENS:
        def f():
            w = World({'arrays': []})
            return [int(a.size) for a in comps(invoke(kd, w))]
        _LENS[c] = pristine(f)
    return _LENS[c]


def close_keys(kds):
    """Deduplicate, add the inner key of every wrapper key, attach lens and inner index."""
    seen, out = {}, []

    def add(kd):
        c = canon({k: kd[k] for k in ('fn', 'form', 'a')})
        if c in seen:
            return seen[c]
        kd = {k: kd[k] for k in ('fn', 'form', 'a')}
        ik = inner_key(kd)
        ii = add(ik) if ik is not None else None
        seen[c] = len(out)
        kd['lens'] = key_lens(kd)
        kd['inner'] = ii
        out.append(kd)
        return seen[c]

    idx = [add(kd) for kd in kds]
    return out, idx


CHUNKS = [1, 2, 3, 4, 5, 7, 8, 11, 13]


class Builder:
    """Accumulates a well-formed history."""

    def __init__(self, rng, kind):
        self.rng = rng
        self.case = {'kind': kind, 'specs': [], 'arrays': [], 'keys': [], 'ops': []}
        self.objs = []       # 'g' | 'q' per object id
        self.nh = 0          # number of handles
        self.hkey = []       # key index per handle

    def op(self, *a):
        self.case['ops'].append(list(a))

    def new(self, s):
        self.op('new', s)
        self.objs.append('g')
        return len(self.objs) - 1

    def qnew(self, kind, param):
        self.op('qnew', kind, param)
        self.objs.append('q')
        return len(self.objs) - 1

    def copy(self, o):
        self.op('copy', o)
        self.objs.append(self.objs[o])
        return len(self.objs) - 1

    def clone(self, o):
        self.op('clone', o)
        self.objs.append('q')
        return len(self.objs) - 1

    def call(self, k):
        self.op('call', k)
        self.hkey.append(k)
        self.nh += 1
        return self.nh - 1

    def mutate_some(self, h):
        lens = self.case['keys'][self.hkey[h]]['lens']
        if not lens:
            return
        c = self.rng.randrange(len(lens))
        if lens[c] == 0:
            return
        for _ in range(self.rng.choice([1, 1, 2])):
            self.op('mutate', h, c, self.rng.randrange(lens[c]))

    def noise(self):
        """An op the prediction ignores."""
        r = self.rng.random()
        if r < 0.35:
            self.op('seed', self.rng.randrange(100))
        elif r < 0.6:
            self.op('rand', self.rng.choice([1, 3, 8]))
        elif r < 0.85:
            self.op('scribble')
        elif self.nh:
            self.mutate_some(self.rng.randrange(self.nh))

    def gens(self):
        return [i for i, t in enumerate(self.objs) if t == 'g']

    def queues(self):
        return [i for i, t in enumerate(self.objs) if t == 'q']

    def sweep(self):
        for i, t in enumerate(self.objs):
            n = self.rng.choice([4, 6, 9])
            self.op('next' if t == 'g' else 'pop', i, n if t == 'g' else n + 20)


def gen_cache_case(rng):
    b = Builder(rng, 'cache')
    kds = [random_key(rng) for _ in range(rng.choice([1, 2, 3]))]
    if rng.random() < 0.5:
        # a wrapper together with the call it wraps, and the factory-form of the same envelope
        a = {'dur': 0.02, 'rise': 0.005, 'offset': rng.choice([0, 3]), 'start': 0, 'samples': rng.choice([7, 20])}
        kds += [{'fn': 'cos2envelope', 'form': 'pos', 'a': a},
                {'fn': 'envelope', 'form': 'kw', 'a': dict(a, window='cosine-squared')}]
    if rng.random() < 0.3:
        # the same value handed to different optional parameters, positionally and by keyword
        x = rng.choice([1, 2, 16])
        if rng.random() < 0.5:
            a = {'window': rng.choice(['cosine-squared', 'hann']), 'dur': 0.02, 'rise': 0.005, 'x': x}
            kds += [{'fn': 'envelope', 'form': 'pos_off', 'a': a}, {'fn': 'envelope', 'form': 'kw_start', 'a': dict(a)}]
        else:
            a = {'dur': 0.02, 'rise': 0.005, 'x': x}
            kds += [{'fn': 'cos2envelope', 'form': 'pos_off', 'a': a}, {'fn': 'cos2envelope', 'form': 'kw_samples', 'a': dict(a)}]
        if rng.random() < 0.5:
            kds[-2:] = kds[-2:][::-1]
    b.case['keys'], idx = close_keys(kds)
    nk = len(b.case['keys'])
    for _ in range(rng.randint(3, 10)):
        r = rng.random()
        if r < 0.5 or not b.nh:
            b.call(rng.randrange(nk))
        elif r < 0.8:
            b.mutate_some(rng.randrange(b.nh))
        elif r < 0.9:
            b.op('read', rng.randrange(b.nh))
        else:
            b.noise()
    for k in range(nk):
        b.call(k)
    return b.case


def gen_gen_case(rng, mixed=False):
    b = Builder(rng, 'mixed' if mixed else 'gen')
    c = b.case
    c['arrays'] = random_arrays(rng, rng.choice([0, 1, 2]))
    ns = rng.choice([1, 2, 2, 3])
    c['specs'] = [random_spec(rng, len(c['arrays'])) for _ in range(ns)]
    if len(c['arrays']) and rng.random() < 0.5:
        # two different generators over the same parameter array
        c['specs'].append({'t': 'fixed', 'w': 0})
        c['specs'].append({'t': 'gate', 'start': 0.003, 'dur': 0.008, 'in': {'t': 'fixed', 'w': 0}})
    plan = [rng.choice(CHUNKS) for _ in range(3)]
    if mixed:
        kds = []
        for s in c['specs']:
            kds += keys_for_spec(s, plan)
        kds = kds[:6] or [random_key(rng)]
        c['keys'], _ = close_keys(kds)
    nk = len(c['keys'])
    pos = {}
    for _ in range(rng.randint(4, 12)):
        r = rng.random()
        g = b.gens()
        if r < 0.2 or not g:
            o = b.new(rng.randrange(len(c['specs'])))
            pos[o] = 0
        elif r < 0.55:
            o = rng.choice(g)
            n = plan[pos.get(o, 0) % 3] if mixed and rng.random() < 0.8 else rng.choice(CHUNKS)
            b.op('next', o, n)
            pos[o] = pos.get(o, 0) + 1
        elif r < 0.67:
            o = rng.choice(g)
            b.op('reset', o)
            pos[o] = 0
        elif r < 0.77:
            o = rng.choice(g)
            pos[b.copy(o)] = pos.get(o, 0)
        elif mixed and nk and r < 0.9:
            h = b.call(rng.randrange(nk))
            b.mutate_some(h)
        else:
            b.noise()
    # every live object reset or not, then drawn: the stream of each must be the predicted one
    for o in b.gens():
        if rng.random() < 0.4:
            b.op('reset', o)
    if rng.random() < 0.5:
        b.op('scribble')
    b.sweep()
    for k in range(nk):
        b.call(k)
    return c


_PERTURB = {'level': lambda v, r: v * r.choice([10.0, 0.1, 2.0]), 'seed': lambda v, r: v + r.choice([1, 2]),
            'pol': lambda v, r: -v, 'phase': lambda v, r: v + 0.25, 'depth': lambda v, r: 0.75 if v != 0.75 else 0.5}


def perturb_spec(rng, spec):
    """A copy of spec that differs in exactly one scalar parameter (level, seed, polarity, ...), or None."""
    s = copy.deepcopy(spec)
    sites, node = [], s
    while isinstance(node, dict):
        sites += [(node, k) for k in node if k in _PERTURB and isinstance(node[k], (int, float))]
        node = node.get('in')
    if not sites:
        return None
    node, k = rng.choice(sites)
    node[k] = _PERTURB[k](node[k], rng)
    return s


def gen_sibling_case(rng):
    """Two generators whose parameters differ in one scalar, built and drawn one after the other: the second
    must not start from anything the first one left behind (shared warm-up, cached filter state, ...)."""
    b = Builder(rng, 'gen')
    c = b.case
    c['arrays'] = random_arrays(rng, rng.choice([0, 1]))
    for _ in range(20):
        a = random_spec(rng, len(c['arrays']))
        sib = perturb_spec(rng, a)
        if sib is not None:
            break
    else:
        a, sib = {'t': 'bbn', 'level': 1.0, 'seed': 0, 'pol': 1}, {'t': 'bbn', 'level': 10.0, 'seed': 0, 'pol': 1}
    c['specs'] = [a, sib]
    order = [0, 1] if rng.random() < 0.5 else [1, 0]
    o1 = b.new(order[0])
    for _ in range(rng.randint(0, 2)):
        b.op('next', o1, rng.choice(CHUNKS))
    if rng.random() < 0.5:
        b.op('reset', o1)
    o2 = b.new(order[1])
    b.op('next', o2, rng.choice(CHUNKS))
    b.op('next', o1, rng.choice(CHUNKS))
    if rng.random() < 0.5:
        b.op('reset', o2)
        b.op('next', o2, rng.choice(CHUNKS))
    b.sweep()
    return c


def gen_queue_case(rng):
    b = Builder(rng, 'queue')
    c = b.case
    c['arrays'] = random_arrays(rng, rng.choice([1, 2]))
    c['specs'] = [random_spec(rng, len(c['arrays']), finite=True) for _ in range(rng.choice([1, 2]))]
    # one more array that no factory spec refers to: appended to queues only, later overwritten by the caller
    c['arrays'] += random_arrays(rng, 1)
    qonly = len(c['arrays']) - 1
    kind = rng.choice(QUEUE_KINDS)
    q = b.qnew(kind, rng.choice([0, 1, 5]))
    if rng.random() < 0.35:
        # the caller post-processes a buffer in place (buf *= gain): a buffer lying wholly inside one trial of an
        # array token must not be a window onto the queue's stored waveform
        b.op('appendw', q, qonly, rng.choice([2, 3]), rng.choice([0, 2]))
        b.op('pop', q, rng.choice([3, 5]))
        b.op('scribble')
        b.op('pop', q, rng.choice([3, 9, 30]))
    for _ in range(rng.randint(4, 12)):
        r = rng.random()
        g, qs = b.gens(), b.queues()
        if r < 0.15 or not g:
            b.new(rng.randrange(len(c['specs'])))
        elif r < 0.35:
            b.op('append', rng.choice(qs), rng.choice(g), rng.choice([1, 2, 3]), rng.choice([0, 0, 3]))
        elif r < 0.45:
            b.op('appendw', rng.choice(qs), rng.choice([qonly, rng.randrange(len(c['arrays']))]), rng.choice([1, 2]),
                 rng.choice([0, 2]))
            if rng.random() < 0.4:
                b.op('wwrite', qonly)
        elif r < 0.65:
            b.op('pop', rng.choice(qs), rng.choice([3, 9, 17, 30, 45]))
        elif r < 0.75:
            b.op('next', rng.choice(g), rng.choice(CHUNKS))   # later use of the original object
        elif r < 0.85:
            if rng.random() < 0.7:
                b.clone(rng.choice(qs))
            else:
                b.copy(rng.choice(qs))
        elif r < 0.9 and len(qs) < 3:
            b.qnew(rng.choice(QUEUE_KINDS), rng.choice([0, 1, 5]))
        else:
            b.noise()
    b.sweep()
    return c


def exhaustive_cache(maxlen):
    """Every op sequence up to maxlen over a 6-letter alphabet on a wrapper/wrapped/factory-form key triple."""
    a = {'dur': 0.012, 'rise': 0.004, 'offset': 0, 'start': 0, 'samples': 6}
    kds = [{'fn': 'cos2envelope', 'form': 'pos', 'a': a},
           {'fn': 'blfilter', 'form': 'pos', 'a': {'fl': 100.0, 'fh': 200.0, 'rolloff': 1, 'pa': 1, 'sa': 40}}]
    keys, idx = close_keys(kds)      # keys: [envelope pos (inner), cos2envelope, blfilter]
    alphabet = ['c0', 'c1', 'c2', 'm', 's', 'r']
    for n in range(1, maxlen + 1):
        for word in itertools.product(alphabet, repeat=n):
            ops, nh, ok = [], 0, True
            for ch in word:
                if ch[0] == 'c':
                    ops.append(['call', int(ch[1])])
                    nh += 1
                elif ch == 's':
                    ops.append(['scribble'])
                elif nh == 0:
                    ok = False
                    break
                elif ch == 'm':
                    ops.append(['mutate', nh - 1, 0, 1])
                else:
                    ops.append(['read', 0])
            if ok and word[-1][0] == 'c':
                yield {'kind': 'cache-exh', 'specs': [], 'arrays': [], 'keys': keys, 'ops': ops}


def malformed_cases():
    keys, _ = close_keys([{'fn': 'sam_eq_power', 'form': 'pos', 'a': {'depth': 1.0}},
                          {'fn': 'sam_envelope', 'form': 'pos',
                           'a': {'offset': 0, 'samples': 6, 'depth': 1.0, 'fm': 50.0, 'delay': 0.0}}])
    base = {'kind': 'malformed', 'arrays': [[0.5, 0.25]], 'keys': keys,
            'specs': [{'t': 'tone', 'f': 100.0, 'level': 1.0, 'phase': 0, 'pol': 1}]}
    for ops in ([['read', 0]], [['mutate', 3, 0, 0]], [['call', 9]], [['call', 0], ['mutate', 0, 0, 0]],
                [['call', 2], ['mutate', 0, 0, 99]], [['call', 2], ['mutate', 0, 4, 0]],
                [['next', 0, 3]], [['new', 0], ['pop', 0, 3]], [['new', 5]], [['qnew', 'fifo', 0], ['next', 0, 3]],
                [['qnew', 'fifo', 0], ['append', 0, 0, 1, 0]], [['new', 0], ['clone', 0]], [['copy', 2]],
                [['qnew', 'fifo', 0], ['appendw', 0, 7, 1, 0]], [['qnew', 'lifo', 0]], [['reset', 0]], [['wwrite', 4]],
                [['new', 0], ['qnew', 'brand', 1], ['appendw', 1, 0, 2, 0], ['reset', 1], ['pop', 1, 5]]):
        yield dict(base, ops=ops)


# --------------------------------------------------------------------------

CREATES_OBJ = ('new', 'qnew', 'copy', 'clone')


def drop_op(case, i):
    """The history without op i and without everything that depended on what it created."""
    ops = case['ops']
    dead = {i}
    changed = True
    while changed:
        changed = False
        oid, hid = 0, 0
        dead_obj, dead_h = set(), set()
        for k, op in enumerate(ops):
            if op[0] in CREATES_OBJ:
                if k in dead:
                    dead_obj.add(oid)
                oid += 1
            if op[0] == 'call':
                if k in dead:
                    dead_h.add(hid)
                hid += 1
        for k, op in enumerate(ops):
            if k in dead:
                continue
            uses_o = []
            if op[0] in ('next', 'reset', 'copy', 'clone', 'pop', 'appendw'):
                uses_o = [op[1]]
            elif op[0] == 'append':
                uses_o = [op[1], op[2]]
            uses_h = [op[1]] if op[0] in ('mutate', 'read') else []
            if any(o in dead_obj for o in uses_o) or any(h in dead_h for h in uses_h):
                dead.add(k)
                changed = True
    omap, hmap = {}, {}
    oid = hid = no = nh = 0
    for k, op in enumerate(ops):
        if op[0] in CREATES_OBJ:
            if k not in dead:
                omap[oid] = no
                no += 1
            oid += 1
        if op[0] == 'call':
            if k not in dead:
                hmap[hid] = nh
                nh += 1
            hid += 1
    out = []
    for k, op in enumerate(ops):
        if k in dead:
            continue
        op = list(op)
        try:
            if op[0] in ('next', 'reset', 'copy', 'clone', 'pop', 'appendw'):
                op[1] = omap[op[1]]
            elif op[0] == 'append':
                op[1], op[2] = omap[op[1]], omap[op[2]]
            elif op[0] in ('mutate', 'read'):
                op[1] = hmap[op[1]]
        except KeyError:
            return None
        out.append(op)
    return dict(case, ops=out)


class C10(Spec):
    PROP = 'C10'
    MODEL = 'cache'
    PROOF_MODULES = ['PsiProofs.C10']
    DESIGN_REF = 'DESIGN.md §6 C10'
    PARALLEL = 0
    TRUST = [
        'modelled, not verified: Python object aliasing — that copy.deepcopy reaches every mutable sub-object of a '
        'factory/queue and that ndarray.copy() shares no memory — has no counterpart in the value-semantics model; '
        'it is covered only by the differential histories (level: partial for that part)',
        'the abstract generator (params, offset, rng, filter) treats RandomState/lfilter/cos as deterministic '
        'functions of their explicit state; init has no global-state argument',
        'pristine references are computed by the real library in a world with emptied memo tables '
        '(or a forked child when the memo implementation is not recognised)',
    ]
    ASSUMPTIONS = ['noise factories are given an explicit integer seed (seed=None asks NumPy for OS entropy and is '
                   'outside "seeded noise")',
                   'a factory object is not shared between two wrappers; arrays passed as parameters are not '
                   'written by the caller']
    RULE = ('histories of 4-25 ops drawn from: memoised-function calls in the library\'s own argument forms, caller '
            'writes into returned arrays, new/next/reset/deepcopy of every constructible stim factory (nested up to '
            'depth 3), queue append/pop/clone for FIFO/interleaved/blocked/blocked-random, global np.random seed and '
            'draws, scribble over every returned array; every live object is drawn at the end. Non-trivial = the '
            'history contains at least one op the prediction must ignore or undo (mutate, scribble, seed, rand, '
            'reset after next, copy, clone, append followed by use of the original).')
    exhaustive_note = {
        'quick': 'memo histories: every op word of length <= 4 over {call wrapped, call wrapper, call tuple-valued, '
                 'mutate last, scribble, read first} ending in a call',
        'thorough': 'memo histories: every such op word of length <= 6',
    }

    def cases(self, rng, tier):
        n = 3 if tier == 'quick' else 30
        self.PARALLEL = 16      # references are evaluated in forked children of a pristine interpreter: spread them
        for c in malformed_cases():
            yield c
        for c in exhaustive_cache(4 if tier == 'quick' else 6):
            yield c
        for _ in range(150 * n):
            yield gen_cache_case(rng)
        for _ in range(200 * n):
            yield gen_gen_case(rng)
        for _ in range(150 * n):
            yield gen_gen_case(rng, mixed=True)
        for _ in range(150 * n):
            yield gen_queue_case(rng)
        for _ in range(60 * n):
            yield gen_sibling_case(rng)

    # The Lean model follows the fixed code (copy on return); C10_VARIANT=alias selects the model of the
    # code as originally written, to show that it reproduces the defect position by position.
    @staticmethod
    def preamble(c):
        variant = c.get('variant', os.environ.get('C10_VARIANT', 'copy'))
        pre = [f'variant {variant}', f"specs {len(c.get('specs', []))}", f"arrays {len(c.get('arrays', []))}"]
        for i, kd in enumerate(c.get('keys', [])):
            lens = ','.join(str(x) for x in kd['lens']) or '-'
            pre.append(f"key {i} {lens} {'-' if kd['inner'] is None else kd['inner']}")
        return pre

    def model_lines(self, c):
        return self.preamble(c) + [' '.join(str(x) for x in op) for op in c['ops']]

    def impl_lines(self, c):
        return ['ok'] * len(self.preamble(c)) + run_history(c)

    def oracle(self, c, out):
        if out and out[0].startswith('HARNESS-EXC'):
            return None      # an adapter problem is not a property failure (shows up as a mismatch)
        out = out[len(self.preamble(c)):]
        for k, (op, line) in enumerate(zip(c['ops'], out)):
            if op[0] == 'call' and ' dirty' in line:
                kd = c['keys'][op[1]]
                return (f"op {k}: {kd['fn']}({kd['form']}) returned a value that differs from a fresh evaluation "
                        f"with the same arguments at [{line.split('dirty ')[1][:60]}]")
            if op[0] == 'call' and line.startswith('EXC'):
                return f'op {k}: call raised {line}'
            if op[0] in ('next', 'pop') and ' DIFF@' in line:
                return (f'op {k}: {op[0]} on object {op[1]} returned a chunk that differs (first at sample '
                        f"{line.split('DIFF@')[1]}) from the chunk of a pristine object with lineage {line.split(' DIFF')[0]}")
        return None

    def nontrivial(self, c, out):
        kinds = [op[0] for op in c['ops']]
        if any(k in kinds for k in ('mutate', 'scribble', 'seed', 'rand', 'copy', 'clone', 'append', 'appendw')):
            return True
        return 'reset' in kinds and 'next' in kinds[:kinds.index('reset')]

    def neighbours(self, c, rng):
        for i in range(len(c['ops'])):
            d = drop_op(c, i)
            if d is not None and d['ops']:
                yield d

    def shrink_candidates(self, c):
        for i in reversed(range(len(c['ops']))):
            d = drop_op(c, i)
            if d is not None and d['ops']:
                yield d
        for i, op in enumerate(c['ops']):
            if op[0] in ('next', 'pop') and op[2] > 2:
                ops = [list(o) for o in c['ops']]
                ops[i][2] = op[2] // 2
                yield dict(c, ops=ops)

    def describe(self, c):
        return json.dumps({'specs': c.get('specs'), 'keys': [[k['fn'], k['form']] for k in c.get('keys', [])],
                           'ops': c['ops']}, sort_keys=True)[:600]


SPEC = C10()
