"""C18 — boolean-epoch utilities (util.epochs, smooth_epochs, debounce_epochs)."""
import itertools

import numpy as np

from .framework import Spec


def fmt_pairs(arr, table=False):
    a_ = np.asarray(arr)
    if table and (a_.ndim != 2 or a_.shape[1] != 2):     # run detection returns a table of [start, end) pairs, also when empty
        return f'err shape{tuple(a_.shape)}'
    rows = [(int(a), int(b)) for a, b in arr]
    return 'ok ' + (','.join(f'{a}:{b}' for a, b in rows) if rows else '-')


def parse_pairs(s):
    return [] if s == '-' else [tuple(int(v) for v in p.split(':')) for p in s.split(',')]


def ref_runs(bits):
    out, i, n = [], 0, len(bits)
    while i < n:
        if bits[i]:
            j = i
            while j < n and bits[j]:
                j += 1
            out.append((i, j))
            i = j
        else:
            i += 1
    return out


def ref_cover(iv):
    out = []
    for a, b in sorted(iv):
        if out and a <= out[-1][1]:
            out[-1] = (out[-1][0], max(out[-1][1], b))
        else:
            out.append((a, b))
    return out


def ref_debounce(runs, d):
    keep = [r for r in runs if r[1] - r[0] >= d]
    out = []
    for r in keep:
        if out and r[0] - out[-1][1] <= d:
            out[-1] = (out[-1][0], r[1])
        else:
            out.append(r)
    return out


# ---- hardening: the same value in other representations ----------------------
# (only the implementation side sees these; the model line is the one of the plain case)
EPOCH_VARS = ['uint8', 'int8', 'int32', 'int64', 'float32', 'float64',     # 0/1 in another dtype (TTL lines are often uint8)
              'stride', 'negstride', 'pd', 'pos0', 'kw', 'kwpad']
SMOOTH_VARS = ['list', 'tuples', 'int32', 'int16', 'float', 'half', 'fortran', 'view', 'kw']
DEBOUNCE_VARS = ['int32', 'int16', 'uint16', 'uint64', 'float', 'half', 'fortran', 'view', 'kw',
                 'd-int64', 'd-int32', 'd-uint8', 'd-int16']
BIG = 2 ** 40            # sample numbers far beyond 32 bits
# Demands that FAIL on the unchanged library and wait for the integrator's decision (notes/C18.md, "hardening"):
# smooth_epochs column-sorts the caller's ndarray in place (the property does not say inputs stay unmodified).
# (A read-only boolean array made util.epochs raise: repaired by fix af362fd and demanded unconditionally now.)
# They are generated / demanded only with VERIF_PENDING=1.
import os
PENDING = os.environ.get('VERIF_PENDING') == '1'


def build_bits(bits, var):
    """The boolean array `bits` in the representation `var`."""
    b = [c == '1' for c in bits.replace('-', '')]
    if var in ('uint8', 'int8', 'int32', 'int64', 'float32', 'float64'):
        return np.array(b, dtype=bool).astype(var)
    if var == 'stride':                       # a non-contiguous view (every other sample of an interleaved buffer)
        buf = np.ones(2 * len(b), dtype=bool)
        buf[::2] = b
        return buf[::2]
    if var == 'negstride':
        return np.array(b[::-1], dtype=bool)[::-1]
    if var == 'readonly':
        a = np.array(b, dtype=bool)
        a.setflags(write=False)
        return a
    if var == 'pd':                           # what pipeline.edges passes
        from psiaudio.pipeline import PipelineData
        return PipelineData(np.array(b, dtype=bool), 1000.0, s0=5)
    return np.array(b, dtype=bool)


def build_table(iv, var):
    """The interval table `iv` (integer bounds; 'half': the bounds are iv/2) in the representation `var`."""
    rows = [[a, b] for a, b in iv]
    if var == 'list':
        return [list(r) for r in rows]
    if var == 'tuples':
        return tuple(tuple(r) for r in rows)
    if var in ('int32', 'int16', 'uint16', 'uint64'):
        return np.array(rows, dtype=var).reshape(-1, 2)
    if var == 'float':
        return np.array(rows, dtype=np.float64).reshape(-1, 2)
    if var == 'half':
        return np.array(rows, dtype=np.float64).reshape(-1, 2) / 2.0
    if var == 'fortran':
        return np.asfortranarray(np.array(rows, dtype=np.int64).reshape(-1, 2))
    if var == 'view':                         # two columns of a wider table
        wide = np.full((len(rows), 5), -99, dtype=np.int64)
        if rows:
            wide[:, 1::2][:, :2] = rows
        return wide[:, 1::2][:, :2]
    return np.array(rows, dtype=np.int64).reshape(-1, 2)


def build_limit(d, var):
    if var == 'half':
        return d / 2.0
    if var and var.startswith('d-'):
        return np.dtype(var[2:]).type(d)
    return d


def fmt_scaled(arr, scale):
    rows = []
    for a, b in arr:
        a, b = a * scale, b * scale
        if a != int(a) or b != int(b):
            return 'ok NONINTEGER'
        rows.append((int(a), int(b)))
    return 'ok ' + (','.join(f'{a}:{b}' for a, b in rows) if rows else '-')


def snapshot(a):
    """What the caller can observe of an argument (to see whether a call left it alone)."""
    if isinstance(a, np.ndarray):
        return ('nd', str(a.dtype), a.shape, a.tobytes() if a.flags.c_contiguous else np.ascontiguousarray(a).tobytes())
    return ('py', repr(a))


class C18(Spec):
    PROP = 'C18'
    MODEL = 'epochs'
    PROOF_MODULES = ['PsiProofs.C18']
    DESIGN_REF = 'DESIGN.md §6 C18'
    TRUST = [
        'modelled, not verified: NumPy semantics of np.diff/np.r_/flatnonzero/ndarray.sort(axis=0)/boolean indexing '
        '(the model transcribes what they compute on these inputs; the correspondence check compares on every case)',
        'epochs(x, pad) is modelled for pad = 0 only',
    ]
    ASSUMPTIONS = ['intervals passed to smooth/debounce have integer bounds with lb <= ub']
    RULE = ('epochs: every boolean array up to the length bound (exhaustive); debounce: every array up to a bound '
            'x every limit 0..6 on its run list; smooth: every ordered tuple of <=k intervals over a small range, '
            'plus seeded random larger ones. A case is non-trivial when the array has at least one True and one False '
            '(epochs) / at least two intervals (smooth, debounce); distinct = distinct op line.')
    exhaustive_note = {
        'quick': 'epochs: all 2^0..2^12 boolean arrays; debounce: all arrays of length <= 9 x limits 0..6; smooth: all tuples of <= 3 intervals over [0,4]',
        'thorough': 'epochs: all boolean arrays of length <= 16; debounce: all arrays of length <= 12 x limits 0..6; smooth: all tuples of <= 3 intervals over [0,7] and of 4 over [0,3]',
    }

    def cases(self, rng, tier):
        nb, nd, sm3, sm4 = (12, 9, 4, 0) if tier == 'quick' else (16, 12, 7, 3)
        for n in range(0, nb + 1):
            for bits in itertools.product('01', repeat=n):
                yield {'kind': 'epochs', 'bits': ''.join(bits) or '-'}
        for n in range(0, nd + 1):
            for bits in itertools.product('01', repeat=n):
                runs = ref_runs([b == '1' for b in bits])
                for d in range(0, 7):
                    yield {'kind': 'debounce', 'd': d, 'iv': runs}
        ivs = [(a, b) for a in range(sm3 + 1) for b in range(a, sm3 + 1)]
        for k in range(0, 4):
            for combo in itertools.product(ivs, repeat=k):
                yield {'kind': 'smooth', 'iv': list(combo)}
        if sm4:
            ivs4 = [(a, b) for a in range(sm4 + 1) for b in range(a, sm4 + 1)]
            for combo in itertools.product(ivs4, repeat=4):
                yield {'kind': 'smooth', 'iv': list(combo)}
        nrand = 2000 if tier == 'quick' else 40000
        for _ in range(nrand):
            k = rng.randint(2, 9)
            iv = []
            for _ in range(k):
                a = rng.randint(-10, 40)
                iv.append((a, a + rng.randint(0, 12)))
            yield {'kind': 'smooth', 'iv': iv}
        yield from self.reuse_cases(rng, tier)
        for _ in range(nrand):
            n = rng.randint(13, 200)
            p = rng.random()
            bits = ''.join('1' if rng.random() < p else '0' for _ in range(n))
            yield {'kind': 'epochs', 'bits': bits}
            yield {'kind': 'debounce', 'd': rng.randint(-3, 8), 'iv': ref_runs([b == '1' for b in bits])}
        yield from self.hardening_cases(rng, tier)

    @staticmethod
    def _rand_bits(rng, lo=1, hi=60):
        n = rng.randint(lo, hi)
        p = rng.random()
        return ''.join('1' if rng.random() < p else '0' for _ in range(n))

    def hardening_cases(self, rng, tier):
        """HARDENING.md: representations of the same value, call spellings, scale, repeated use, aliasing."""
        quick = tier == 'quick'
        per = 40 if quick else 400
        # 1/2. the same boolean array / table in another representation, other call spellings; every case also
        #      checks that the argument comes back unmodified and (mut) that overwriting the returned table and
        #      calling again gives the same answer
        edge_bits = ['-', '0', '1', '11', '00', '01', '10', '101', '010', '0110', '1001', '1' * 9, '0' * 9]
        for var in EPOCH_VARS + ['readonly']:      # read-only inputs: repaired by fix af362fd
            for bits in edge_bits:
                yield {'kind': 'epochs', 'bits': bits, 'var': var, 'mut': 1}
            for _ in range(per):
                yield {'kind': 'epochs', 'bits': self._rand_bits(rng), 'var': var, 'mut': rng.randint(0, 1)}
        for var in SMOOTH_VARS:
            yield {'kind': 'smooth', 'iv': [], 'var': var, 'mut': 1}
            for _ in range(per):
                k = rng.randint(1, 8)
                lo = 0 if var == 'uint16' else -10
                iv = []
                for _ in range(k):
                    a = rng.randint(lo, 40)
                    iv.append((a, a + rng.randint(0, 12)))
                yield {'kind': 'smooth', 'iv': iv, 'var': var, 'mut': rng.randint(0, 1)}
        for var in DEBOUNCE_VARS:
            yield {'kind': 'debounce', 'd': 1, 'iv': [], 'var': var, 'mut': 1}
            for _ in range(per):
                runs = ref_runs([b == '1' for b in self._rand_bits(rng)])
                yield {'kind': 'debounce', 'd': rng.randint(0, 6), 'iv': runs, 'var': var, 'mut': rng.randint(0, 1)}
        # plain representation, but result overwritten + call repeated
        for _ in range(per * 3):
            runs = ref_runs([b == '1' for b in self._rand_bits(rng)])
            yield {'kind': 'debounce', 'd': rng.randint(-2, 6), 'iv': runs, 'mut': 1}
            yield {'kind': 'epochs', 'bits': self._rand_bits(rng), 'mut': 1}
            iv = []
            for _ in range(rng.randint(0, 8)):
                a = rng.randint(-10, 40)
                iv.append((a, a + rng.randint(0, 12)))
            yield {'kind': 'smooth', 'iv': iv, 'mut': 1}
        # 3. scale: sample numbers beyond 2^31 / 2^40, long arrays, thousands of intervals, tiny next to huge runs
        for _ in range(per):
            off = rng.choice([2 ** 31 - 3, 2 ** 32 + 5, BIG, 2 ** 52])
            runs = [(a + off, b + off) for a, b in ref_runs([b == '1' for b in self._rand_bits(rng)])]
            yield {'kind': 'debounce', 'd': rng.randint(0, 6), 'iv': runs, 'mut': 1}
            mixed = list(runs)
            rng.shuffle(mixed)
            yield {'kind': 'smooth', 'iv': mixed + [(off - 2, off + rng.randint(0, 9))]}
        for n in ([2 ** 16, 2 ** 20] if quick else [2 ** 16, 2 ** 18, 2 ** 20, 2 ** 21]):
            for var in (None, 'uint8'):
                yield {'kind': 'epochs-big', 'n': n, 'seed': rng.randrange(10 ** 6), 'var': var}
        for k in ([3000] if quick else [3000, 8000]):
            yield {'kind': 'table-big', 'op': 'smooth', 'k': k, 'seed': rng.randrange(10 ** 6), 'd': 0}
            yield {'kind': 'table-big', 'op': 'debounce', 'k': k, 'seed': rng.randrange(10 ** 6), 'd': rng.randint(1, 40)}
        # 5/6. histories: the table util.epochs returned is handed to several calls (debounce with several limits,
        #      smooth), then the same array is analysed again
        for _ in range(per * 5):
            yield {'kind': 'chain', 'bits': self._rand_bits(rng, 0, 50), 'ds': [rng.randint(-1, 5) for _ in range(rng.randint(1, 3))],
                   'var': rng.choice([None, None, 'uint8', 'pd'])}

    @staticmethod
    def expand(c):
        """compact big cases -> the plain case they stand for"""
        import random
        if c['kind'] == 'epochs-big':
            r = random.Random(c['seed'])
            parts, n, v = [], 0, r.random() < 0.5
            while n < c['n']:
                l = r.choice([1, 1, 2, 3, r.randint(1, 40), r.randint(1, 40), r.randint(1000, c['n'] // 8)])
                l = min(l, c['n'] - n)
                parts.append(('1' if v else '0') * l)
                n += l
                v = not v
            return {'kind': 'epochs', 'bits': ''.join(parts), 'var': c.get('var')}
        if c['kind'] == 'table-big':
            r = random.Random(c['seed'])
            if c['op'] == 'smooth':
                iv = []
                for _ in range(c['k']):
                    a = r.randint(0, 40 * c['k']) + (BIG if r.random() < 0.5 else 0)
                    iv.append((a, a + r.choice([0, 1, 5, 30, 30, 200, 5000])))
                return {'kind': 'smooth', 'iv': iv}
            iv, pos = [], 2 ** 31 - 20 * c['k']
            for _ in range(c['k']):
                pos += r.choice([1, 2, c['d'], c['d'] + 1, r.randint(1, 90)])
                e = pos + r.choice([1, c['d'] - 1 if c['d'] > 1 else 1, c['d'], r.randint(1, 90), 70000])
                iv.append((pos, e))
                pos = e
            return {'kind': 'debounce', 'iv': iv, 'd': c['d']}
        return c

    def reuse_cases(self, rng, tier):
        """The caller keeps ONE run table and debounces it with several limits in turn (e.g. a sweep): every answer
        must be the one for the original runs (nothing a call does may leak into the next through the table)."""
        nb = 8 if tier == 'quick' else 11
        for n in range(2, nb + 1):
            for bits in itertools.product('01', repeat=n):
                runs = ref_runs([b == '1' for b in bits])
                if len(runs) >= 2:
                    yield {'kind': 'debounce-reuse', 'iv': runs, 'ds': [1, 2, 1, 3, 0]}
        for _ in range(300 if tier == 'quick' else 5000):
            n = rng.randint(10, 80)
            p = rng.random()
            runs = ref_runs([rng.random() < p for _ in range(n)])
            yield {'kind': 'debounce-reuse', 'iv': runs, 'ds': [rng.randint(0, 5) for _ in range(rng.randint(2, 4))]}

    @staticmethod
    def _pairs(iv):
        return ','.join(f'{a}:{b}' for a, b in iv) if iv else '-'

    def model_lines(self, c):
        c = self.expand(c)
        if c['kind'] == 'chain':
            runs = ref_runs([b == '1' for b in c['bits'].replace('-', '')])
            bits = c['bits'] or '-'
            return ([f'epochs {bits}'] + [f"debounce {d} {self._pairs(runs)}" for d in c['ds']]
                    + [f'smooth {self._pairs(runs)}', f'epochs {bits}'])
        if c['kind'] == 'epochs':
            return [f"epochs {c['bits']}"]
        if c['kind'] == 'smooth':
            return [f"smooth {self._pairs(c['iv'])}"]
        if c['kind'] == 'debounce-reuse':
            return [f"debounce {d} {self._pairs(c['iv'])}" for d in c['ds']]
        return [f"debounce {c['d']} {self._pairs(c['iv'])}"]

    @staticmethod
    def _call(util, op, arg, d=None, var=None):
        if op == 'epochs':
            if var == 'pos0':
                return util.epochs(arg, 0)
            if var == 'kw':
                return util.epochs(x=arg)
            if var == 'kwpad':
                return util.epochs(arg, pad=0)
            return util.epochs(arg)
        if op == 'smooth':
            return util.smooth_epochs(epochs=arg) if var == 'kw' else util.smooth_epochs(arg)
        return util.debounce_epochs(epochs=arg, debounce=d) if var == 'kw' else util.debounce_epochs(arg, d)

    def _one(self, util, op, arg, d=None, var=None, mut=False, scale=1):
        """One call; canonical line + flags: ARG-MODIFIED (the call changed its argument), REPEAT-DIFFERS (after the
        caller overwrote the returned table, the same call gives another answer)."""
        fmt = (lambda r: fmt_scaled(r, scale)) if scale != 1 else \
            ((lambda r: fmt_pairs(r, table=True)) if op == 'epochs' else fmt_pairs)
        try:
            before = snapshot(arg)
            r = self._call(util, op, arg, d, var)
            line = fmt(r)
            # smooth_epochs sorts an ndarray argument in place (unchanged library; reported, not demanded here)
            if (op != 'smooth' or PENDING) and snapshot(arg) != before:
                line += ' ARG-MODIFIED'
            if mut:
                if isinstance(r, np.ndarray) and r.size and r is not arg:
                    r += 3
                r2 = self._call(util, op, arg, d, var)
                if fmt(r2) != line.split(' ARG-')[0]:
                    line += ' REPEAT-DIFFERS'
            return line
        except (IndexError, ValueError, TypeError) as e:
            return f'err {type(e).__name__}'

    def impl_lines(self, c):
        from psiaudio import util
        c = self.expand(c)
        var = c.get('var')
        if c['kind'] == 'epochs':
            return [self._one(util, 'epochs', build_bits(c['bits'], var), var=var, mut=c.get('mut'))]
        if c['kind'] == 'chain':
            x = build_bits(c['bits'], var)
            out = [self._one(util, 'epochs', x)]
            try:
                table = util.epochs(x)                    # the library's own table, handed on as it is
            except (IndexError, ValueError):
                table = np.array(ref_runs([b == '1' for b in c['bits']]), dtype=np.int64).reshape(-1, 2)
            for d in c['ds']:
                out.append(self._one(util, 'debounce', table, d))
            out.append(self._one(util, 'smooth', table))
            out.append(self._one(util, 'epochs', x))
            return out
        if c['kind'] == 'debounce-reuse':
            arr = np.array(c['iv'], dtype=np.int64).reshape(-1, 2)
            out = []
            for d in c['ds']:
                try:
                    out.append(fmt_pairs(util.debounce_epochs(arr, d)))      # the SAME table object every time
                except (IndexError, ValueError) as e:
                    out.append(f'err {type(e).__name__}')
            return out
        scale = 2 if var == 'half' else 1
        arr = build_table(c['iv'], var)
        if c['kind'] == 'smooth':
            return [self._one(util, 'smooth', arr, var=var, mut=c.get('mut'), scale=scale)]
        return [self._one(util, 'debounce', arr, build_limit(c['d'], var), var=var, mut=c.get('mut'), scale=scale)]

    def oracle(self, c, out):
        c = self.expand(c)
        for l in out:
            if 'ARG-MODIFIED' in l:
                return f'the call modified the array it was given ({c["kind"]}, representation {c.get("var") or "plain"})'
            if 'REPEAT-DIFFERS' in l:
                return (f'{c["kind"]}: after the caller overwrote the returned table, the same call on the same argument '
                        f'gives a different answer ({l[:80]})')
            if 'NONINTEGER' in l:
                return f'{c["kind"]}: bounds that are not among the given ones ({l[:80]})'
        if c['kind'] == 'chain':
            runs = ref_runs([b == '1' for b in c['bits'].replace('-', '')])
            wants = [runs] + [ref_debounce(runs, d) for d in c['ds']] + [ref_cover(runs), runs]
            names = ['epochs(x)'] + [f'debounce_epochs(epochs(x), {d})' for d in c['ds']] + ['smooth_epochs(epochs(x))', 'epochs(x) again']
            for line, want, name in zip(out, wants, names):
                if not line.startswith('ok '):
                    return f'{name} raised: {line}'
                got = parse_pairs(line[3:])
                if got != want:
                    return f'x={c["bits"][:60]}: {name} returned {got[:8]}, the run structure is {want[:8]}'
            return None
        if c['kind'] == 'debounce-reuse':
            runs = [tuple(p) for p in c['iv']]
            for j, (d, line) in enumerate(zip(c['ds'], out)):
                if not line.startswith('ok '):
                    return f'raised: {line}'
                got, want = parse_pairs(line[3:]), ref_debounce(runs, d)
                if got != want:
                    return (f'debounce_epochs(table, {d}) as call {j + 1} of limits {c["ds"]} on the same table {runs} '
                            f'returned {got}, the run structure is {want}')
            return None
        if not out[0].startswith('ok '):
            return f'{c["kind"]} ({c.get("var") or "plain"} representation) raised: {out[0]}'
        got = parse_pairs(out[0][3:])
        if c['kind'] == 'epochs':
            want = ref_runs([b == '1' for b in c['bits'].replace('-', '')])
            what = f"epochs({c['bits'][:80]})"
        elif c['kind'] == 'smooth':
            want = ref_cover([tuple(p) for p in c['iv']])
            what = f"smooth_epochs({c['iv']})"
        else:
            want = ref_debounce([tuple(p) for p in c['iv']], c['d'])
            what = f"debounce_epochs({c['iv']}, {c['d']})"
        if c.get('var'):
            what += f' [{c["var"]} representation]'
        if got != want:
            j = next((j for j, (a, b) in enumerate(zip(got, want)) if a != b), min(len(got), len(want)))
            return f'{what[:200]} returned {got[max(0, j - 2):j + 3]} (entry {j}), the run structure is {want[max(0, j - 2):j + 3]}'
        return None

    def kind(self, c):
        return c['kind'] + ('/' + c['var'] if c.get('var') else '')

    def nontrivial(self, c, out):
        if c['kind'] in ('debounce-reuse', 'chain', 'epochs-big', 'table-big'):
            return True
        if c['kind'] == 'epochs':
            return '0' in c['bits'] and '1' in c['bits']
        return len(c['iv']) >= 2

    def neighbours(self, c, rng):
        if c['kind'] == 'epochs':
            b = c['bits'].replace('-', '')
            for i in range(len(b)):
                yield {'kind': 'epochs', 'bits': (b[:i] + ('1' if b[i] == '0' else '0') + b[i + 1:])}
            yield {'kind': 'epochs', 'bits': (b + '1')}
            yield {'kind': 'epochs', 'bits': ('1' + b)}

    def shrink_candidates(self, c):
        if c['kind'] in ('epochs-big', 'table-big'):
            yield self.expand(c)
            return
        if c['kind'] == 'chain':
            b = c['bits']
            for i in range(len(b)):
                yield dict(c, bits=b[:i] + b[i + 1:])
            for i in range(len(c['ds'])):
                if len(c['ds']) > 1:
                    yield dict(c, ds=c['ds'][:i] + c['ds'][i + 1:])
            return
        if c['kind'] == 'epochs':
            b = c['bits'].replace('-', '')
            for i in range(len(b)):
                yield dict(c, bits=(b[:i] + b[i + 1:]) or '-')
        else:
            for i in range(len(c['iv'])):
                d = dict(c)
                d['iv'] = c['iv'][:i] + c['iv'][i + 1:]
                yield d


SPEC = C18()
