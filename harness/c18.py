"""C18 — boolean-epoch utilities (util.epochs, smooth_epochs, debounce_epochs)."""
import itertools

import numpy as np

from .framework import Spec


def fmt_pairs(arr):
    rows = [(int(a), int(b)) for a, b in arr]
    return 'ok ' + (','.join(f'{a}:{b}' for a, b in rows) if rows else '-')


def parse_pairs(s):
    return [] if s == '-' else [tuple(int(v) for v in p.split(':')) for p in s.split(',')]


def ref_runs(bits):
    out, i, n = [], 0, len(bits)
    while i < n:
        if bits[i]:
            j = i
            while j < n and bits[j]:
                j += 1
            out.append((i, j))
            i = j
        else:
            i += 1
    return out


def ref_cover(iv):
    out = []
    for a, b in sorted(iv):
        if out and a <= out[-1][1]:
            out[-1] = (out[-1][0], max(out[-1][1], b))
        else:
            out.append((a, b))
    return out


def ref_debounce(runs, d):
    keep = [r for r in runs if r[1] - r[0] >= d]
    out = []
    for r in keep:
        if out and r[0] - out[-1][1] <= d:
            out[-1] = (out[-1][0], r[1])
        else:
            out.append(r)
    return out


class C18(Spec):
    PROP = 'C18'
    MODEL = 'epochs'
    PROOF_MODULES = ['PsiProofs.C18']
    DESIGN_REF = 'DESIGN.md §6 C18'
    TRUST = [
        'modelled, not verified: NumPy semantics of np.diff/np.r_/flatnonzero/ndarray.sort(axis=0)/boolean indexing '
        '(the model transcribes what they compute on these inputs; the correspondence check compares on every case)',
        'epochs(x, pad) is modelled for pad = 0 only',
    ]
    ASSUMPTIONS = ['intervals passed to smooth/debounce have integer bounds with lb <= ub']
    RULE = ('epochs: every boolean array up to the length bound (exhaustive); debounce: every array up to a bound '
            'x every limit 0..6 on its run list; smooth: every ordered tuple of <=k intervals over a small range, '
            'plus seeded random larger ones. A case is non-trivial when the array has at least one True and one False '
            '(epochs) / at least two intervals (smooth, debounce); distinct = distinct op line.')
    exhaustive_note = {
        'quick': 'epochs: all 2^0..2^12 boolean arrays; debounce: all arrays of length <= 9 x limits 0..6; smooth: all tuples of <= 3 intervals over [0,4]',
        'thorough': 'epochs: all boolean arrays of length <= 16; debounce: all arrays of length <= 12 x limits 0..6; smooth: all tuples of <= 3 intervals over [0,7] and of 4 over [0,3]',
    }

    def cases(self, rng, tier):
        nb, nd, sm3, sm4 = (12, 9, 4, 0) if tier == 'quick' else (16, 12, 7, 3)
        for n in range(0, nb + 1):
            for bits in itertools.product('01', repeat=n):
                yield {'kind': 'epochs', 'bits': ''.join(bits) or '-'}
        for n in range(0, nd + 1):
            for bits in itertools.product('01', repeat=n):
                runs = ref_runs([b == '1' for b in bits])
                for d in range(0, 7):
                    yield {'kind': 'debounce', 'd': d, 'iv': runs}
        ivs = [(a, b) for a in range(sm3 + 1) for b in range(a, sm3 + 1)]
        for k in range(0, 4):
            for combo in itertools.product(ivs, repeat=k):
                yield {'kind': 'smooth', 'iv': list(combo)}
        if sm4:
            ivs4 = [(a, b) for a in range(sm4 + 1) for b in range(a, sm4 + 1)]
            for combo in itertools.product(ivs4, repeat=4):
                yield {'kind': 'smooth', 'iv': list(combo)}
        nrand = 2000 if tier == 'quick' else 40000
        for _ in range(nrand):
            k = rng.randint(2, 9)
            iv = []
            for _ in range(k):
                a = rng.randint(-10, 40)
                iv.append((a, a + rng.randint(0, 12)))
            yield {'kind': 'smooth', 'iv': iv}
        yield from self.reuse_cases(rng, tier)
        for _ in range(nrand):
            n = rng.randint(13, 200)
            p = rng.random()
            bits = ''.join('1' if rng.random() < p else '0' for _ in range(n))
            yield {'kind': 'epochs', 'bits': bits}
            yield {'kind': 'debounce', 'd': rng.randint(0, 8), 'iv': ref_runs([b == '1' for b in bits])}

    def reuse_cases(self, rng, tier):
        """The caller keeps ONE run table and debounces it with several limits in turn (e.g. a sweep): every answer
        must be the one for the original runs (nothing a call does may leak into the next through the table)."""
        nb = 8 if tier == 'quick' else 11
        for n in range(2, nb + 1):
            for bits in itertools.product('01', repeat=n):
                runs = ref_runs([b == '1' for b in bits])
                if len(runs) >= 2:
                    yield {'kind': 'debounce-reuse', 'iv': runs, 'ds': [1, 2, 1, 3, 0]}
        for _ in range(300 if tier == 'quick' else 5000):
            n = rng.randint(10, 80)
            p = rng.random()
            runs = ref_runs([rng.random() < p for _ in range(n)])
            yield {'kind': 'debounce-reuse', 'iv': runs, 'ds': [rng.randint(0, 5) for _ in range(rng.randint(2, 4))]}

    @staticmethod
    def _pairs(iv):
        return ','.join(f'{a}:{b}' for a, b in iv) if iv else '-'

    def model_lines(self, c):
        if c['kind'] == 'epochs':
            return [f"epochs {c['bits']}"]
        if c['kind'] == 'smooth':
            return [f"smooth {self._pairs(c['iv'])}"]
        if c['kind'] == 'debounce-reuse':
            return [f"debounce {d} {self._pairs(c['iv'])}" for d in c['ds']]
        return [f"debounce {c['d']} {self._pairs(c['iv'])}"]

    def impl_lines(self, c):
        from psiaudio import util
        try:
            if c['kind'] == 'epochs':
                x = np.array([b == '1' for b in c['bits'].replace('-', '')], dtype=bool)
                return [fmt_pairs(util.epochs(x))]
            arr = np.array(c['iv'], dtype=np.int64).reshape(-1, 2)
            if c['kind'] == 'debounce-reuse':
                out = []
                for d in c['ds']:
                    try:
                        out.append(fmt_pairs(util.debounce_epochs(arr, d)))      # the SAME table object every time
                    except (IndexError, ValueError) as e:
                        out.append(f'err {type(e).__name__}')
                return out
            if c['kind'] == 'smooth':
                return [fmt_pairs(util.smooth_epochs(arr))]
            return [fmt_pairs(util.debounce_epochs(arr, c['d']))]
        except (IndexError, ValueError) as e:
            return [f'err {type(e).__name__}']

    def oracle(self, c, out):
        if c['kind'] == 'debounce-reuse':
            runs = [tuple(p) for p in c['iv']]
            for j, (d, line) in enumerate(zip(c['ds'], out)):
                if not line.startswith('ok '):
                    return f'raised: {line}'
                got, want = parse_pairs(line[3:]), ref_debounce(runs, d)
                if got != want:
                    return (f'debounce_epochs(table, {d}) as call {j + 1} of limits {c["ds"]} on the same table {runs} '
                            f'returned {got}, the run structure is {want}')
            return None
        if not out[0].startswith('ok '):
            return f'raised: {out[0]}'
        got = parse_pairs(out[0][3:])
        if c['kind'] == 'epochs':
            want = ref_runs([b == '1' for b in c['bits'].replace('-', '')])
            what = f"epochs({c['bits']})"
        elif c['kind'] == 'smooth':
            want = ref_cover([tuple(p) for p in c['iv']])
            what = f"smooth_epochs({c['iv']})"
        else:
            want = ref_debounce([tuple(p) for p in c['iv']], c['d'])
            what = f"debounce_epochs({c['iv']}, {c['d']})"
        if got != want:
            return f'{what} returned {got}, the run structure is {want}'
        return None

    def nontrivial(self, c, out):
        if c['kind'] == 'debounce-reuse':
            return True
        if c['kind'] == 'epochs':
            return '0' in c['bits'] and '1' in c['bits']
        return len(c['iv']) >= 2

    def neighbours(self, c, rng):
        if c['kind'] == 'epochs':
            b = c['bits'].replace('-', '')
            for i in range(len(b)):
                yield {'kind': 'epochs', 'bits': (b[:i] + ('1' if b[i] == '0' else '0') + b[i + 1:])}
            yield {'kind': 'epochs', 'bits': (b + '1')}
            yield {'kind': 'epochs', 'bits': ('1' + b)}

    def shrink_candidates(self, c):
        if c['kind'] == 'epochs':
            b = c['bits'].replace('-', '')
            for i in range(len(b)):
                yield {'kind': 'epochs', 'bits': (b[:i] + b[i + 1:]) or '-'}
        else:
            for i in range(len(c['iv'])):
                d = dict(c)
                d['iv'] = c['iv'][:i] + c['iv'][i + 1:]
                yield d


SPEC = C18()
